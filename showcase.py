#!/usr/bin/env python3
"""Pretty-print a replay file: program as BASIC text is not available here (AST only), so dump compactly."""
import json,sys
def expr(e):
    if isinstance(e,dict):
        (k,v),=e.items()
        if k=='Num': return ('%g'%v)
        if k=='Str': return '"%s"'%v
        if k=='Var': return v
        if k=='Cell': return '%s(%s)'%(v[0],','.join(expr(x) for x in v[1]))
        if k=='Call': return '%s(%s)'%(v[0],','.join(expr(x) for x in v[1]))
        if k in('Neg','Pos','Not'): return {'Neg':'-','Pos':'+','Not':'NOT '}[k]+'('+expr(v)+')'
        if k=='Bin': return '(%s %s %s)'%(expr(v[1]),v[0],expr(v[2]))
        if k in('Abs','Int','Rnd'): return k.upper()+'('+expr(v)+')'
        if k=='Paren': return '('+expr(v)+')'
    return str(e)
def lv(l): return l['name']+('('+','.join(expr(x) for x in l['index'])+')' if l['index'] is not None else '')
def br(b):
    (k,v),=b.items()
    return str(v) if k=='Line' else ' : '.join(stmt(s) for s in v)
def stmt(s):
    if isinstance(s,str): return s.upper()
    (k,v),=s.items()
    if k=='Let': return ('LET ' if v['kw'] else '')+lv(v['target'])+' = '+expr(v['e'])
    if k=='Print': return 'PRINT '+' '.join((expr(i['E']) if isinstance(i,dict) else {'Semi':';','Comma':','}[i]) for i in v['items'])
    if k=='If': return 'IF '+expr(v['cond'])+' THEN '+br(v['then'])+(' ELSE '+br(v['els']) if v['els'] else '')
    if k in('Goto','Gosub'): return k.upper()+' '+str(v)
    if k=='For': return 'FOR %s = %s TO %s'%(v['var'],expr(v['from']),expr(v['to']))+(' STEP '+expr(v['step']) if v['step'] else '')
    if k=='Next': return 'NEXT '+v
    if k=='Read': return 'READ '+','.join(lv(x) for x in v)
    if k=='Data': return 'DATA '+','.join(json.dumps(x) for x in v)
    if k=='Dim': return 'DIM %s(%s)'%(v[0],','.join(expr(x) for x in v[1]))
    if k=='Def': return 'DEF %s(%s) = %s'%(v['name'],','.join(v['params']),expr(v['body']))
    if k=='Input': return 'INPUT '+lv(v)
    if k=='Rem': return 'REM'+v
    return json.dumps(s)
def show_lines(lines):
    for l in lines: print('   ',l['num'],' : '.join(stmt(s) for s in l['stmts']))
d=json.load(open(sys.argv[1]))
print(d['property'],d['violation']['class'],'|',d['violation']['fingerprint'])
print(d['violation']['detail'][:1500])
c=d['case']
p=c.get('prog',c)
if 'lines' in p:
    show_lines(p['lines'])
    print('    replies',[r['text'] for r in p.get('replies',[])],'seed',p.get('seed'),'breaks',p.get('breaks'))
for k in c:
    if k not in('prog','lines','replies'): print('   ',k,json.dumps(c[k])[:800])
