#!/usr/bin/env python3
"""Collect confirmed seeded changes from the sub-agents' scratch worktrees into /verif/seeded/ and
print the markdown table for DESIGN.md §6.1.  usage: tools/collect_seeded.py [--table-only]"""
import json, os, glob, shutil, sys, re
ROOT = os.path.dirname(os.path.dirname(os.path.abspath(__file__)))
rows = []
if "--table-only" not in sys.argv:
    for md in sorted(glob.glob("/tmp/wt-C*/MUTANT*") + glob.glob("/tmp/w2-C*/MUTANT*") + glob.glob("/tmp/w3-C*/MUTANT*") + glob.glob("/tmp/w4-C*/MUTANT*") + glob.glob("/tmp/w5-C*/MUTANT*") + glob.glob("/tmp/w6-C*/MUTANT*") + glob.glob("/tmp/w7-C*/MUTANT*") + glob.glob("/tmp/w8-C*/MUTANT*") + glob.glob("/tmp/w9-C*/MUTANT*") + glob.glob("/tmp/w10-C*/MUTANT*") + glob.glob("/tmp/w11-C*/MUTANT*") + glob.glob("/tmp/w12-C*/MUTANT*")):
        ev_p = os.path.join(md, "eval.json")
        if not os.path.exists(ev_p): continue
        ev = json.load(open(ev_p))
        prop = ev["property"]
        n = re.sub(r"\D", "", os.path.basename(md)) or "1"
        rnd = "r2-" if "/w2-" in md else ("r3-" if "/w3-" in md else ("r4-" if "/w4-" in md else ("r5-" if "/w5-" in md else ("r6-" if "/w6-" in md else ("r7-" if "/w7-" in md else ("r8-" if "/w8-" in md else ("r9-" if "/w9-" in md else ("r10-" if "/w10-" in md else ("r11-" if "/w11-" in md else ("r12-" if "/w12-" in md else ""))))))))))
        dst = os.path.join(ROOT, "seeded", f"{prop}-{rnd}{n}")
        confirmed = ev.get("compiles") and ev.get("suite_unchanged") and ev.get("demo_fails_with_change") and ev.get("demo_passes_without_change")
        if not confirmed:
            print("NOT CONFIRMED (not kept):", md, {k: ev.get(k) for k in ("compiles", "suite_unchanged", "demo_fails_with_change", "demo_passes_without_change")})
            continue
        os.makedirs(dst, exist_ok=True)
        for f in glob.glob(os.path.join(md, "*")):
            if os.path.basename(f) in ("eval.json", "meta.json"): continue
            shutil.copy(f, dst)
        meta = json.load(open(os.path.join(md, "meta.json"))) if os.path.exists(os.path.join(md, "meta.json")) else {}
        meta.setdefault("property", prop)
        meta["breaks_property"] = prop
        meta["origin"] = "fresh sub-agent given only the property text and a scratch worktree of /repo" + (" (round 2: additionally told which round-1 ideas to stay away from)" if rnd == "r2-" else (" (round 3: asked for a *quiet* change that a straight RUN cannot show, and told which earlier ideas are taken)" if rnd == "r3-" else (" (round 4: as round 3, with a second list of taken ideas)" if rnd == "r4-" else (" (round 5: quiet changes for the remaining properties, third list of taken ideas)" if rnd == "r5-" else (" (round 6: all 15 properties, asked for a forgotten clause or corner of the quantifier, full list of taken ideas)" if rnd == "r6-" else (" (round 7: all 15 properties, asked for interactions of two features, boundary values, state surviving between activities, drifting duplicate code paths)" if rnd == "r7-" else (" (round 8: all 15 properties, asked for what is reported rather than computed, N-th repetition effects, asymmetric pairs, clean-up paths)" if rnd == "r8-" else (" (round 9: all 15 properties, asked for the indirect route through helper code, unusual values, ordering, resource handling over long sessions)" if rnd == "r9-" else (" (round 10: all 15 properties, asked for the most realistic next pull request that breaks the property by accident; evaluated against the final simulator, no extensions made afterwards)" if rnd == "r10-" else (" (round 11: all 15 properties, asked for changes that need a specific history or timing: two cooperating sites, a host action at a particular suspended state, an I/O-edge fault, a boundary value in combination; first evaluated against the simulator as extended after round 10)" if rnd == "r11-" else (" (round 12: eight properties, same direction as round 11, evaluated against the simulator as extended after round 11)" if rnd == "r12-" else "")))))))))))
        meta["confirmed_by_us"] = {
            "in": "scratch worktree " + os.path.dirname(md),
            "ran": ["cargo test --workspace --no-fail-fast --offline (baseline vs with change: identical)",
                    "demonstration with the change (fails) and without it (passes)",
                    "quick check(s) " + ", ".join(ev.get("checks", {}).keys()) + " against the changed tree"],
            "suite_baseline": ev.get("suite_baseline"), "suite_with_change": ev.get("suite_with_change"),
            "demo_with_change_rc": ev.get("demo_with_change"), "demo_without_change_rc": ev.get("demo_without_change"),
        }
        old = {}
        if os.path.exists(os.path.join(dst, "eval.json")):
            old = json.load(open(os.path.join(dst, "eval.json")))
        hist = old.get("history", [])
        entry = {"checks": ev.get("checks"), "check_output": ev.get("check_output", [])[:4], "sim_commit": os.popen(f"git -C {ROOT} rev-parse --short HEAD").read().strip()}
        if not hist or hist[-1].get("checks") != entry["checks"]:
            hist.append(entry)
        json.dump(meta, open(os.path.join(dst, "meta.json"), "w"), indent=1)
        json.dump({"history": hist}, open(os.path.join(dst, "eval.json"), "w"), indent=1)
print("| seeded change | breaks | what it changes | needs to manifest | caught by (quick, default seed) |")
print("|---|---|---|---|---|")
for d in sorted(glob.glob(os.path.join(ROOT, "seeded", "*"))):
    if not os.path.isdir(d): continue
    meta = json.load(open(os.path.join(d, "meta.json")))
    ev = json.load(open(os.path.join(d, "eval.json")))
    last = ev["history"][-1]
    caught = ", ".join(f"{k}" for k, v in (last.get("checks") or {}).items() if v == 1) or "**missed**"
    first = " → ".join((", ".join(k for k, v in (h.get("checks") or {}).items() if v == 1) or "missed") for h in ev["history"])
    cls = ""
    for l in last.get("check_output", []):
        m = re.search(r"(C\d\d/[a-z0-9-]+)", l)
        if m: cls = m.group(1); break
    def clip(s, n): 
        s = (s or "").replace("|", "/").replace("\n", " ")
        return s if len(s) <= n else s[:n-1] + "…"
    print(f"| `{os.path.basename(d)}` | {meta.get('breaks_property')} | {clip(meta.get('summary'), 230)} | {clip(meta.get('needs_to_manifest'), 200)} | {first if len(ev['history'])>1 else caught} {('('+cls+')') if cls else ''} |")
