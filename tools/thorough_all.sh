#!/bin/bash
# usage: tools/thorough_all.sh [ID...] — thorough tier of each check, sequentially (VERIF_BUDGET_S per check)
cd "$(dirname "$0")/.."
IDS=("$@"); [ ${#IDS[@]} -eq 0 ] && IDS=(C01 C03 C04 C07 C08 C09 C10 C11 C14 C15 C16 C17 C18 C19 C20)
./check build >/dev/null 2>&1 || { echo BUILD-FAILED; exit 2; }
for id in "${IDS[@]}"; do
  out=$(./check $id thorough 2>&1); rc=$?
  echo "$id rc=$rc $(echo "$out" | grep -E "^$id:" | tail -1)"
  echo "$out" | grep -E "^  C[0-9]+/|VIOLATION|HARNESS|KNOWN" | head -6
done
