#!/usr/bin/env python3
"""Print a markdown table of the fault kinds and reach probes that fired in the committed evidence files."""
import json, glob, os
ROOT = os.path.dirname(os.path.dirname(os.path.abspath(__file__)))
print("| check | tier | runs | host calls | faults fired (count) | reach probes (count) |")
print("|---|---|---|---|---|---|")
for f in sorted(glob.glob(os.path.join(ROOT, "evidence", "C*.json"))):
    e = json.load(open(f)); c = e["coverage"]
    fl = ", ".join(f"{k[6:]} {v}" for k, v in sorted(c.get("faults_fired", {}).items()))
    rp = ", ".join(f"{k[6:]} {v}" for k, v in sorted(c.get("reach_probes", {}).items()) if not k.startswith("reach.error.") and not k.startswith("reach.cli.opts"))
    print(f"| {e['property_id']} | {e['tier']} | {c['evaluations']} | {c.get('host_calls')} | {fl} | {rp} |")
