#!/usr/bin/env python3
"""Confirm a seeded property-breaking change in its scratch worktree and run our checks against it.
usage: tools/eval_mutant.py <worktree> <mutant-subdir> <PROPERTY> [CHECK_ID ...]
 1. in the worktree: apply patch, run the full suite (must equal the baseline), run the demo (must fail),
    revert, run the demo (must pass);
 2. in /repo: apply patch, run the given checks (default: the property's own), revert.
Writes <mutant-subdir>/eval.json and prints a summary."""
import json, os, re, subprocess, sys, glob, shutil
wt, sub, prop = sys.argv[1], sys.argv[2], sys.argv[3]
checks = sys.argv[4:] or [prop]
md = os.path.join(wt, sub)
tag = os.path.basename(wt.rstrip("/"))
env = dict(os.environ, RUST_BACKTRACE="0", CARGO_NET_OFFLINE="true", CARGO_TARGET_DIR=f"/tmp/mut-target-{tag}")
ISOLATED = os.environ.get("EVAL_ISOLATED", "1") == "1"
def sh(cmd, cwd=wt, timeout=1800):
    p = subprocess.run(cmd, shell=True, cwd=cwd, env=env, capture_output=True, text=True, timeout=timeout)
    return p.returncode, p.stdout + p.stderr
def suite():
    rc, out = sh("cargo test --workspace --no-fail-fast --offline 2>&1")
    res = re.findall(r"test result: (\w+)\. (\d+) passed; (\d+) failed", out)
    return [(a, int(b), int(c)) for a, b, c in res], ("error: could not compile" in out or "error[E" in out)
def demo_crate(fname, patch_text, meta):
    t = (meta.get("demo") or "") + " " + fname
    for c in ("abasic-lsp", "abasic-web", "abasic-cli", "abasic-core"):
        if c + "/tests" in t: return c
    if "abasic-lsp" in patch_text: return "abasic-lsp"
    if "abasic-web" in patch_text: return "abasic-web"
    return "abasic-core"
def run_demos(patch_text, meta):
    results = {}
    for f in sorted(glob.glob(os.path.join(md, "*"))):
        b = os.path.basename(f)
        if b.endswith(".rs"):
            crate = demo_crate(b, patch_text, meta)
            tdir = os.path.join(wt, crate, "tests"); os.makedirs(tdir, exist_ok=True)
            name = "zz_" + b[:-3]
            shutil.copy(f, os.path.join(tdir, name + ".rs"))
            rc, out = sh(f"cargo test -p {crate} --test {name} --offline 2>&1", timeout=900)
            os.remove(os.path.join(tdir, name + ".rs"))
            results[b] = {"rc": rc, "tail": out[-600:]}
        elif b.endswith(".sh"):
            # shell demonstrations build into the worktree's own target dir
            e3 = dict(env); e3.pop("CARGO_TARGET_DIR", None)
            p = subprocess.run(f"sh {f} 2>&1", shell=True, cwd=wt, env=e3, capture_output=True, text=True, timeout=1800)
            rc, out = p.returncode, p.stdout + p.stderr
            results[b] = {"rc": rc, "tail": out[-600:]}
        elif b.endswith(".py") and b.startswith("demo"):
            # python LSP clients: build the worktree's own debug server, pass its path
            e3 = dict(env); e3.pop("CARGO_TARGET_DIR", None)
            p = subprocess.run(f"cargo build -p abasic-lsp --offline 2>&1 | tail -2; python3 {f} target/debug/abasic-lsp 2>&1", shell=True, cwd=wt, env=e3, capture_output=True, text=True, timeout=1800)
            out = p.stdout + p.stderr
            rc = 0 if ("PASS" in out and "FAIL" not in out and p.returncode == 0) else 1
            results[b] = {"rc": rc, "tail": out[-600:]}
    return results
meta = {}
if os.path.exists(os.path.join(md, "meta.json")):
    meta = json.load(open(os.path.join(md, "meta.json")))
patch = os.path.join(md, "patch.diff")
patch_text = open(patch).read()
ev = {"property": prop, "mutant": md}
sh("git checkout -q -- . ")
base, _ = suite()
rc, out = sh(f"git apply {patch}")
if rc != 0:
    print("PATCH DOES NOT APPLY", out); sys.exit(2)
withp, broken = suite()
ev["compiles"] = not broken
ev["suite_baseline"] = base; ev["suite_with_change"] = withp; ev["suite_unchanged"] = (base == withp)
d_with = run_demos(patch_text, meta)
sh("git checkout -q -- . ")
d_without = run_demos(patch_text, meta)
ev["demo_tails"] = {"with": {k: v["tail"][-400:] for k, v in d_with.items()}, "without": {k: v["tail"][-200:] for k, v in d_without.items()}}
ev["demo_with_change"] = {k: v["rc"] for k, v in d_with.items()}
ev["demo_without_change"] = {k: v["rc"] for k, v in d_without.items()}
ev["demo_fails_with_change"] = any(v["rc"] != 0 for v in d_with.values())
ev["demo_passes_without_change"] = all(v["rc"] == 0 for v in d_without.values()) and len(d_without) > 0
# our checks
res = {}
if ISOLATED:
    # run the checks against the worktree itself: a private copy of the simulator whose path
    # dependencies point at the worktree, private VERIF_ROOT for evidence/replays
    simdir = f"/tmp/evalsim-{tag}"; root = f"/tmp/evalroot-{tag}"
    os.makedirs(root + "/evidence", exist_ok=True); os.makedirs(root + "/replays", exist_ok=True)
    sh(f"rsync -a --delete --exclude target /tmp/simsnap/sim/ {simdir}/ && sed -i 's#/repo/#{wt}/#g' {simdir}/Cargo.toml && cp /tmp/simsnap/known_findings.json {root}/", cwd="/")
    sh(f"git apply {patch}")
    e2 = dict(env, CARGO_TARGET_DIR=f"{simdir}/target", VERIF_ROOT=root, VERIF_REPO=wt)
    def sh2(cmd, cwd, timeout=3600):
        p = subprocess.run(cmd, shell=True, cwd=cwd, env=e2, capture_output=True, text=True, timeout=timeout)
        return p.returncode, p.stdout + p.stderr
    rc, out = sh2("cargo build --release --offline 2>&1 | grep -E '^error' -A5 | head -20", simdir)
    if "error" in out:
        print("SIM BUILD FAILED against the worktree:", out); sh("git checkout -q -- . "); sys.exit(2)
    out = ""
    if any(c in ("C15", "C20") for c in checks):
        sh2(f"RUSTFLAGS= cargo build --release --offline -p abasic-cli -p abasic-lsp --target-dir {root}/target/repo 2>&1 | tail -3", wt)
    for c in checks:
        rc, o = sh2(f"{simdir}/target/release/abasic-sim check {c} quick 2>&1", root)
        out += f"{c} rc={rc}\n" + o
    sh("git checkout -q -- . ")
else:
    rc, out = sh(f"/verif/tools/try_mutant.sh {patch} " + " ".join(checks), cwd="/verif", timeout=3600)
for line in out.splitlines():
    m = re.match(r"^(C\d\d) rc=(\d+)", line)
    if m: res[m.group(1)] = int(m.group(2))
ev["checks"] = res
ev["check_output"] = [l for l in out.splitlines() if l.startswith("  C") or "VIOLATION" in l or "HARNESS" in l or "REFUSING" in l or "PATCH" in l][:12]
json.dump(ev, open(os.path.join(md, "eval.json"), "w"), indent=1)
print(json.dumps({k: ev[k] for k in ("mutant", "compiles", "suite_unchanged", "demo_fails_with_change", "demo_passes_without_change", "checks")}))
for l in ev["check_output"][:6]: print("   ", l[:220])
