#!/usr/bin/env python3
"""Run each seeded change the official way: git -C /repo apply, ./check <ID> quick, git -C /repo checkout -- .
Appends the outcome to seeded/<id>/eval.json and prints one line per change.
usage: tools/run_seeded.py [seeded-id ...]"""
import json, os, re, subprocess, sys, glob
ROOT = os.path.dirname(os.path.dirname(os.path.abspath(__file__)))
ids = sys.argv[1:] or sorted(os.path.basename(d) for d in glob.glob(os.path.join(ROOT, "seeded", "*")) if os.path.isdir(d))
for sid in ids:
    d = os.path.join(ROOT, "seeded", sid)
    prop = sid.split("-")[0]
    patch = os.path.join(d, "patch.diff")
    p = subprocess.run([os.path.join(ROOT, "tools", "try_mutant.sh"), patch, prop], capture_output=True, text=True, timeout=7200)
    out = p.stdout + p.stderr
    m = re.search(rf"^{prop} rc=(\d+)", out, re.M)
    rc = int(m.group(1)) if m else -1
    lines = [l.strip() for l in out.splitlines() if re.match(r"^\s+C\d\d/", l) or "HARNESS" in l or "REFUSING" in l or "PATCH" in l][:4]
    ev = json.load(open(os.path.join(d, "eval.json")))
    sim = os.popen(f"git -C {ROOT} rev-parse --short HEAD").read().strip()
    repo = os.popen("git -C /repo rev-parse --short HEAD").read().strip()
    ev.setdefault("history", []).append({"how": f"git -C /repo apply seeded/{sid}/patch.diff; ./check {prop} quick; git -C /repo checkout -- .", "checks": {prop: rc}, "check_output": lines, "sim_commit": sim, "repo_commit": repo})
    json.dump(ev, open(os.path.join(d, "eval.json"), "w"), indent=1)
    print(sid, "rc=%d" % rc, (lines[0][:160] if lines else ""), flush=True)
