#!/usr/bin/env python3
"""Regenerate the table of seeded changes in DESIGN.md §6.1 from seeded/*/eval.json."""
import os, re, subprocess
ROOT = os.path.dirname(os.path.dirname(os.path.abspath(__file__)))
tbl = subprocess.run([os.path.join(ROOT, "tools", "collect_seeded.py"), "--table-only"], capture_output=True, text=True).stdout
tbl = "\n".join(l for l in tbl.splitlines() if l.startswith("|"))
p = os.path.join(ROOT, "DESIGN.md")
s = open(p).read()
s = re.sub(r"<!-- SEEDED-TABLE -->.*?(?=\n## 7\. )", lambda m: "<!-- SEEDED-TABLE -->\n" + tbl + "\n", s, flags=re.S)
open(p, "w").write(s)
print("table rows:", tbl.count("\n") - 1)
