#!/usr/bin/env python3
"""Regenerate /verif/MANIFEST.json from the table below."""
import json, os
ROOT = os.path.dirname(os.path.dirname(os.path.abspath(__file__)))
TECH = "deterministic simulation with fault injection: "
checks = {
 "C01": ("exploration", "§3 C01",
   "Seeded search over protocol-respecting host sessions on the real interpreter: each run is one PRNG-scheduled session (lines, ticks, replies, breaks, NEW+replace, seeds, flag toggles; hostile texts incl. boundary numerals and nesting up to 100000 deep); a monitor after every call checks: returned (no unwind, no abort, no wedge), error => idle + caret renders, canary line still accepted, transient state only after NEW. A clean batch is evidence, not proof.",
   "Trusted: the scheduler issues only protocol-legal calls; worker stack 8 MiB (Linux main-thread default); 45 s watchdog defines 'wedge'. Aborts are attributed through a per-worker in-flight file and re-confirmed in a fresh process.",
   TECH + "seeded host-schedule search, per-call invariant monitor, process isolation for aborts, ddmin replay"),
 "C03": ("exploration", "§3 C03",
   "Lock-step refinement of the real interpreter against an independent reference interpreter (sim/src/model.rs, executes the generator's AST; shares no tokenizer/parser with abasic) over grammar-generated programs incl. intended runtime failures; half of the runs under faults that must be transparent (break+CONT at PRNG-chosen turn boundaries, tracing/warnings on). Output records, states, error kind and line must agree segment by segment.",
   "Trusted: the reference model's rules (DESIGN.md Appendix A) and the generator's restriction to the documented dialect region (identifier alphabet, canonical numerals, no IF inside THEN-with-ELSE). The discriminating power is the model; the schedule adds the transparent-fault dimension.",
   TECH + "lock-step refinement against an executable reference model under seeded break/flag faults"),
 "C04": ("exploration", "§3 C04",
   "Seeded histories of add/replace/delete/failed-edit over keys incl. 0, 2^63, 2^64-2, 2^64-1 in several spellings, interleaved with LIST, RUN (traced), RUN broken mid-way, CONT, so edits also arrive at STOP breakpoints and host breaks; checked against a BTreeMap reference, a twin interpreter fed only the final pairs, and run/trace order.",
   "Trusted: bodies are PRINT/REM/STOP with unique tags (each listed/printed line attributable to one write).",
   TECH + "history search against a map reference model + twin listing, edits injected at breakpoints"),
 "C07": ("fault_enumeration", "§3 C07",
   "Twin runs on the real interpreter: uninterrupted baseline vs. break / inspect (incl. failing inspections and failing user-function calls) / CONT at chosen turn boundaries. Mode AllSingletons places the break at EVERY boundary of a program's run in turn (single-fault exhaustive per program; all such programs in thorough, a share in quick); multi-break subsets are sampled; assignment at STOP is compared with the assignment written in place of STOP. Streams, request positions, outcome and final probe snapshot must be equal.",
   "Trusted: the list of statements that write in this dialect (excluded from inspections) — reads of absent arrays, RND(>0), READ, INPUT, DIM, DEF, assignments, jumps; generated function bodies are side-effect free.",
   TECH + "per-program exhaustive single-fault placement over turn boundaries + sampled multi-fault schedules, twin-run oracle"),
 "C08": ("exploration", "§3 C08",
   "Lock-step reference model with structured replies over programs with INPUT at every grammatical position; faults are what arrives while blocked: non-numeric replies (REENTER, repeated), surplus, empty, break while pending + CONT. Also probe equality across every REENTER.",
   "Trusted: structured replies (the generator knows how its own text parses; canonical numerals only for string targets).",
   TECH + "lock-step refinement with reply faults and break-while-blocked"),
 "C09": ("exploration", "§3 C09",
   "Per-turn monitor on every evaluating host call of seeded runs (incl. non-terminating programs, 200-statement lines, long IF scans) with tracing on: trace records name only the entry line, count <= 1 + IF tokens, <= 1 print, break returns idle in one call, token reads bounded by line length (hook counter) for function-free programs.",
   "Trusted: turn-entry location and token-read counter come from the read-only probe hook; the constant 64 in the work bound.",
   TECH + "per-turn invariant monitor from the host side of the seam under seeded break schedules"),
 "C10": ("exploration", "§3 C10",
   "Restart-with-only-durable-state twin: interpreter A lives through a PRNG-scheduled history (runs completed/failed/broken incl. between reply and consumption, immediate statements, open loops, GOSUB, READ, edits), interpreter B is fresh with only the stored lines; same flags, seed, RUN, ticks, replies; records, outcome and deep probe snapshot must be equal.",
   "Trusted: NEW is outside histories (host-side replacement).",
   TECH + "history search with break faults, twin against a fresh interpreter"),
 "C11": ("fault_enumeration", "§3 C11",
   "Suspend a run (break at boundary k while running/awaiting, STOP, completion, failure), apply one edit (add/replace/delete/rejected), issue one probe (CONT, RETURN, NEXT, FN call, READ, GOTO, PRINT v). Mode EveryBoundary places the suspension at EVERY boundary of the run in turn. Probe snapshot and probe answers must show total invalidation after a successful edit, none after a rejected one (plus C07-style continuation).",
   "Trusted: no-op edits are not generated (statement silent).",
   TECH + "per-program exhaustive placement of the edit fault over suspension points, snapshot + behavioural probes"),
 "C14": ("exploration", "§3 C14",
   "Restart-from-listing fault: LIST, fresh interpreter, type every listed line back (1-2 generations); listing must be a fixed point and RUN / READ-all-DATA behaviour identical on original and restarted interpreter; programs from the grammar plus a listing-stress pool (token adjacencies, numeral spellings, DATA item shapes, REM, multi-byte). One known finding (identifier followed by the numeral .0) is pinned in known_findings.json.",
   "Coverage of 'every token kind in every adjacency' is by sampling, not enumeration.",
   TECH + "restart fault with twin continuation (durability of the only persistent form, the listing)"),
 "C16": ("exploration", "§3 C16",
   "Invariant monitor through the probe after EVERY host call of seeded sessions that press on the caps (recursion to 31/32/33+, 31-40 nested FORs, FOR re-entered 3000x, DIM at 9999/10000/10001/overflow, 1-25 subscripts, ill-typed writes through every path) with breaks, CONT, immediate statements and edits in between; refusals must be OUT OF MEMORY, idle, and leave the interpreter usable.",
   "Trusted: the probe hook reports the real internal state.",
   TECH + "inductive-invariant monitor at every turn boundary under seeded cap-pressure sessions"),
 "C17": ("exploration", "§3 C17",
   "The same session replayed under the four tracing/warnings configurations (fields and TRACE/NOTRACE commands, also issued at STOP points), each in lock-step with the reference model (prints/requests/errors, trace path collapsed, warning predicate in order); immediate lines must not be traced; the four final probe snapshots must be identical.",
   "Trusted: left-to-right evaluation order for warnings inside one statement; warnings of a failing statement are not compared.",
   TECH + "configuration sweep x lock-step refinement (trace path and warning predicate from the reference model)"),
 "C18": ("exploration", "§3 C18",
   "PARTIAL: lock-step LCG model (u128) under call histories with clock-jump seeds (boundary dictionary + three ranges up to 2^64-1), positive/zero/negative arguments, draws inside programs with break+CONT, host noise that must not touch the generator; bare core and the real Web adapter seeded identically must print the same. The statement's exhaustive sweep of all 2^33 states is NOT done (enumeration is a different technique); evidence reports distinct states visited.",
   "Trusted: the u128 model; Display formatting of f64 for comparison.",
   TECH + "lock-step state-machine model under seeded seed-jump faults, two front ends"),
}
na = {
 "C02":"pure function of one expression text on a fresh interpreter: no turn boundary exists inside an expression, so there is no schedule, clock, fault or history for a simulator to control; deciding it means enumerating expression trees (bounded-exhaustive / property-based testing), a different technique (DESIGN.md §4). C03's reference model evaluates every generated expression, which is incidental reach, not a claim",
 "C05":"SourceFileAnalyzer::analyze(text) is a pure function of the file text; quantifier is 'all UTF-8 file contents' with no state carried between calls: nothing to schedule or fault (DESIGN.md §4). Exercised incidentally by C20's in-process oracle, not claimed",
 "C06":"relation between two pure functions of the same program text (static checker vs. all executions); needs enumeration of typed/ill-typed programs and their branches, not of host schedules (DESIGN.md §4)",
 "C12":"the tokenizer is a pure function line -> tokens; quantifier 'all whitespace insertions/deletions and case flips' is input enumeration with no interleaving, time or I/O (DESIGN.md §4)",
 "C13":"same pure function, quantifier 'all lines over an alphabet, exhaustive up to a length bound': enumeration, not simulation (DESIGN.md §4)",
}
pending_reason = "check under construction in this session (planned in DESIGN.md §3); not claimed until its command is registered"
extra = json.load(open(os.path.join(ROOT, "tools", "manifest_extra.json"))) if os.path.exists(os.path.join(ROOT, "tools", "manifest_extra.json")) else {}
for k, v in extra.get("checks", {}).items():
    checks[k] = tuple(v)
allp = ["C%02d" % i for i in range(1, 21)]
m = {
 "version": 1,
 "setup_cmd": "./check build",
 "hooks": {"guard": "abasic_verif",
   "enable": "rustflags --cfg abasic_verif in /verif/sim/.cargo/config.toml (simulator build of abasic-core / abasic-web only; the abasic and abasic-lsp binaries driven by clisim / lspsim are built without it by ./check build)",
   "baseline_off_cmd": "cd /repo && cargo test --workspace --no-fail-fast --offline",
   "source_commits": ["65edd0b", "a92e00c"], "add_only": True},
 "engines": [{"name": "abasic-sim", "path": "sim/", "serves_properties": sorted(checks),
   "kind_free_text": "deterministic simulator of the host<->interpreter turn-taking protocol (Rust; one PRNG seed per run; drivers sessim/websim/lspsim/clisim; 16 worker processes; abort attribution; ddmin minimiser; replay files)"}],
 "checks": [],
 "not_applicable": [],
 "notes": "All checks: ./check <ID> quick|thorough (rebuilds from /repo's working tree). VERIF_SEED selects the batch (default 20260927), VERIF_BUDGET_S caps thorough wall time (default 900 s), VERIF_RUNS overrides the run count. Replay files under replays/. Known findings: known_findings.json (fixed entries suppress nothing)."
}
for pid in sorted(checks):
    cat, ref, text, note, tech = checks[pid]
    m["checks"].append({
      "property_id": pid, "quick_cmd": f"./check {pid} quick", "thorough_cmd": f"./check {pid} thorough",
      "evidence_file": f"evidence/{pid}.json", "replay_cmd_template": "./check replay {path}", "engine": "abasic-sim",
      "level_claimed": {"category": cat, "text": text, "design_ref": "DESIGN.md " + ref},
      "level_note": note, "technique": tech})
for pid in allp:
    if pid in checks: continue
    m["not_applicable"].append({"property_id": pid, "reason": na.get(pid, pending_reason)})
json.dump(m, open(os.path.join(ROOT, "MANIFEST.json"), "w"), indent=1)
print("claimed:", sorted(checks), "not claimed:", [x["property_id"] for x in m["not_applicable"]])
