#!/bin/bash
# usage: tools/seed_sweep.sh <first-seed> <last-seed> [ID...]  — zero-alarm sweep on the current tree
cd "$(dirname "$0")/.."
a=$1; b=$2; shift 2
IDS=("$@"); [ ${#IDS[@]} -eq 0 ] && IDS=(C01 C03 C04 C07 C08 C09 C10 C11 C14 C15 C16 C17 C18 C19 C20)
./check build >/dev/null 2>&1 || { echo BUILD-FAILED; exit 2; }
for seed in $(seq $a $b); do
  for id in "${IDS[@]}"; do
    out=$(VERIF_SEED=$seed ./check $id quick 2>&1); rc=$?
    echo "seed=$seed $id rc=$rc $(echo "$out" | grep -E "^$id:" | tail -1)"
    if [ $rc -ne 0 ]; then echo "$out" | grep -E "VIOLATION|HARNESS|^  C" | head -5; mkdir -p sweep_replays; cp replays/$id-$seed-*.json sweep_replays/ 2>/dev/null; fi
  done
done
