#!/bin/bash
# usage: tools/try_mutant.sh <patch.diff> <ID> [more IDs...]
# Applies a property-breaking change to /repo, runs the given quick checks, reverts the change.
# Prints one line per check: "<ID> rc=<exit code> <summary>". Never leaves /repo modified.
set -u
cd "$(dirname "$0")/.."
patch="$1"; shift
if ! git -C /repo diff --quiet; then echo "REFUSING: /repo has uncommitted changes"; exit 2; fi
if ! git -C /repo apply --check "$patch" 2>/dev/null; then echo "PATCH-DOES-NOT-APPLY $patch"; exit 2; fi
git -C /repo apply "$patch"
trap 'git -C /repo checkout -- . ; git -C /repo clean -fdq -- abasic-core abasic-cli abasic-web abasic-lsp >/dev/null 2>&1' EXIT
for id in "$@"; do
  out=$(VERIF_ROOT_EVIDENCE_SKIP=1 ./check "$id" quick 2>&1); rc=$?
  echo "$id rc=$rc $(echo "$out" | grep -E "^$id:" | tail -1)"
  echo "$out" | grep -E "^  C[0-9]+/|VIOLATION|HARNESS" | head -4
done
