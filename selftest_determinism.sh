#!/bin/bash
# Determinism self-test: for each property, the canonical per-run log hashes of N runs must be
# identical across two executions in separate processes, in different environments
# (RUST_BACKTRACE, locale, working directory) and with a different split of the index range.
# usage: selftest_determinism.sh [ID...]   (default: all sessim/websim properties)
set -u
cd "$(dirname "$0")"
SIM="$(pwd)/target/sim/release/abasic-sim"
IDS=("$@")
[ ${#IDS[@]} -eq 0 ] && IDS=(C01 C03 C04 C07 C08 C09 C10 C11 C14 C15 C16 C17 C18 C19)
N="${VERIF_DET_RUNS:-2000}"
SEED="${VERIF_SEED:-20260927}"
rc=0
tmp="$(mktemp -d)"
trap 'rm -rf "$tmp"' EXIT
for id in "${IDS[@]}"; do
  # execution A: one process, whole range
  RUST_BACKTRACE=0 "$SIM" logs "$id" "$SEED" 0 "$N" >"$tmp/a.$id" 2>/dev/null
  # execution B: 8 processes, each a slice, different env and cwd, concatenated in order
  : >"$tmp/b.$id"
  step=$((N / 8))
  pids=()
  for k in 0 1 2 3 4 5 6 7; do
    from=$((k * step))
    cnt=$step
    [ $k -eq 7 ] && cnt=$((N - from))
    (cd / && RUST_BACKTRACE=1 LANG=C HOME=/nonexistent "$SIM" logs "$id" "$SEED" "$from" "$cnt" >"$tmp/b.$id.$k" 2>/dev/null) &
    pids+=($!)
  done
  for p in "${pids[@]}"; do wait "$p"; done
  for k in 0 1 2 3 4 5 6 7; do cat "$tmp/b.$id.$k" >>"$tmp/b.$id"; done
  la=$(wc -l <"$tmp/a.$id")
  if [ "$la" -ne "$N" ]; then
    echo "DETERMINISM $id: expected $N log lines, got $la"; rc=2
  elif cmp -s "$tmp/a.$id" "$tmp/b.$id"; then
    echo "DETERMINISM $id: $N runs x 2 executions identical (1 process vs 8 processes, RUST_BACKTRACE 0/1)"
  else
    echo "DETERMINISM $id: MISMATCH"; diff "$tmp/a.$id" "$tmp/b.$id" | head -5; rc=2
  fi
done
exit $rc
