//! abasic-sim — deterministic simulation of the host <-> interpreter protocol.
//!
//!   abasic-sim check  <ID> <quick|thorough>          supervisor (16 workers)
//!   abasic-sim worker <ID> <tier> <seed> <shard> <shards> <runs> <dir>
//!   abasic-sim exec   <ID> <case.json>               run one case, print violation
//!   abasic-sim replay <replay.json>                  reproduce a recorded violation
//!   abasic-sim logs   <ID> <seed> <from> <count>     canonical per-run log hashes (determinism self-test)

mod ast;
mod drive;
mod engine;
mod gen;
mod hostile;
mod lockstep;
mod model;
mod prng;
mod props;
mod sess;
mod websess;

use engine::{CheckArgs, Tier, WorkerArgs};
use std::path::{Path, PathBuf};

macro_rules! dispatch {
    ($id:expr, $p:ident => $body:expr) => {
        match $id {
            "C01" => {
                type $p = props::c01::C01;
                $body
            }
            "C03" => {
                type $p = props::c03::C03;
                $body
            }
            "C04" => {
                type $p = props::c04::C04;
                $body
            }
            "C07" => {
                type $p = props::c07::C07;
                $body
            }
            "C08" => {
                type $p = props::c08::C08;
                $body
            }
            "C09" => {
                type $p = props::c09::C09;
                $body
            }
            "C10" => {
                type $p = props::c10::C10;
                $body
            }
            "C11" => {
                type $p = props::c11::C11;
                $body
            }
            "C14" => {
                type $p = props::c14::C14;
                $body
            }
            "C15" => {
                type $p = props::c15::C15;
                $body
            }
            "C16" => {
                type $p = props::c16::C16;
                $body
            }
            "C17" => {
                type $p = props::c17::C17;
                $body
            }
            "C18" => {
                type $p = props::c18::C18;
                $body
            }
            "C19" => {
                type $p = props::c19::C19;
                $body
            }
            "C20" => {
                type $p = props::c20::C20;
                $body
            }
            other => {
                eprintln!("HARNESS-ERROR: unknown property {other}");
                2
            }
        }
    };
}

fn env_u64(k: &str) -> Option<u64> {
    std::env::var(k).ok().and_then(|s| s.trim().parse().ok())
}
fn env_f64(k: &str) -> Option<f64> {
    std::env::var(k).ok().and_then(|s| s.trim().parse().ok())
}

fn watchdog() {
    // a worker that makes no progress for 45 s is wedged: abort so the supervisor can attribute it
    std::thread::spawn(|| {
        let mut last = engine::progress();
        let mut idle = 0u32;
        loop {
            std::thread::sleep(std::time::Duration::from_secs(5));
            let now = engine::progress();
            if now == last {
                idle += 1;
                if idle >= 9 {
                    eprintln!("WATCHDOG: no progress for 45 s");
                    unsafe { libc::abort() };
                }
            } else {
                idle = 0;
                last = now;
            }
        }
    });
}

fn main() {
    // abasic's errors capture a backtrace (and print it in Display) when RUST_BACKTRACE is set:
    // that would make error texts depend on the environment. Decide it here, before any capture.
    std::env::set_var("RUST_BACKTRACE", "0");
    let args: Vec<String> = std::env::args().collect();
    let code = real_main(&args);
    std::process::exit(code);
}

fn real_main(args: &[String]) -> i32 {
    let cmd = args.get(1).map(|s| s.as_str()).unwrap_or("");
    match cmd {
        "check" => {
            let id = args.get(2).map(|s| s.as_str()).unwrap_or("");
            let tier = args
                .get(3)
                .and_then(|s| Tier::parse(s))
                .or_else(|| std::env::var("VERIF_TIER").ok().and_then(|s| Tier::parse(&s)))
                .unwrap_or(Tier::Quick);
            let seed = env_u64("VERIF_SEED").unwrap_or(engine::DEFAULT_SEED);
            let workers = env_u64("VERIF_WORKERS").unwrap_or(16).max(1);
            let budget = env_f64("VERIF_BUDGET_S").or(match tier {
                Tier::Quick => None,
                Tier::Thorough => Some(900.0),
            });
            let a = CheckArgs {
                tier,
                seed,
                workers,
                budget_s: budget,
                runs_override: env_u64("VERIF_RUNS"),
            };
            dispatch!(id, P => engine::check::<P>(a))
        }
        "worker" => {
            let id = args[2].as_str();
            let a = WorkerArgs {
                tier: Tier::parse(&args[3]).expect("tier"),
                seed: args[4].parse().expect("seed"),
                shard: args[5].parse().expect("shard"),
                shards: args[6].parse().expect("shards"),
                runs: args[7].parse().expect("runs"),
                dir: PathBuf::from(&args[8]),
                budget_s: env_f64("VERIF_WORKER_BUDGET_S"),
                announce_all: std::env::var("VERIF_ANNOUNCE_ALL").is_ok(),
                max_violations: 50,
                start: args.get(9).and_then(|s| s.parse().ok()).unwrap_or_else(|| args[5].parse().unwrap()),
                incarnation: args.get(10).and_then(|s| s.parse().ok()).unwrap_or(0),
            };
            watchdog();
            let id = id.to_string();
            engine::on_big_stack(move || dispatch!(id.as_str(), P => engine::worker::<P>(a)))
        }
        "exec" => {
            let id = args[2].clone();
            let path = PathBuf::from(&args[3]);
            watchdog();
            engine::on_big_stack(move || dispatch!(id.as_str(), P => engine::exec_case::<P>(&path)))
        }
        "minimise" => {
            let id = args[2].clone();
            let inp = PathBuf::from(&args[3]);
            let outp = PathBuf::from(&args[4]);
            watchdog();
            engine::on_big_stack(move || dispatch!(id.as_str(), P => engine::minimise_main::<P>(&inp, &outp)))
        }
        "replay" => {
            let path = Path::new(&args[2]);
            let txt = match std::fs::read_to_string(path) {
                Ok(t) => t,
                Err(e) => {
                    eprintln!("HARNESS-ERROR: {e}");
                    return 2;
                }
            };
            let doc: serde_json::Value = match serde_json::from_str(&txt) {
                Ok(d) => d,
                Err(e) => {
                    eprintln!("HARNESS-ERROR: {e}");
                    return 2;
                }
            };
            let id = doc["property"].as_str().unwrap_or("").to_string();
            dispatch!(id.as_str(), P => engine::replay::<P>(path))
        }
        "logs" => {
            let id = args[2].clone();
            let seed: u64 = args[3].parse().expect("seed");
            let from: u64 = args[4].parse().expect("from");
            let count: u64 = args[5].parse().expect("count");
            engine::on_big_stack(move || dispatch!(id.as_str(), P => engine::logs::<P>(seed, from, count)))
        }
        _ => {
            eprintln!("usage: abasic-sim check|worker|exec|replay|logs ...");
            2
        }
    }
}
