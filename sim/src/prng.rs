//! SplitMix64 -> xoshiro256** ; no dependency, no platform variance.

#[derive(Clone, Debug)]
pub struct Rng {
    s: [u64; 4],
}

pub fn splitmix(x: &mut u64) -> u64 {
    *x = x.wrapping_add(0x9E3779B97F4A7C15);
    let mut z = *x;
    z = (z ^ (z >> 30)).wrapping_mul(0xBF58476D1CE4E5B9);
    z = (z ^ (z >> 27)).wrapping_mul(0x94D049BB133111EB);
    z ^ (z >> 31)
}

/// Seed of run `i` of a batch started with `verif_seed`.
pub fn run_seed(verif_seed: u64, prop_salt: u64, i: u64) -> u64 {
    let mut x = verif_seed ^ i.wrapping_mul(0x9E3779B97F4A7C15) ^ prop_salt.rotate_left(32);
    splitmix(&mut x)
}

impl Rng {
    pub fn new(seed: u64) -> Self {
        let mut x = seed;
        let s = [
            splitmix(&mut x),
            splitmix(&mut x),
            splitmix(&mut x),
            splitmix(&mut x),
        ];
        Rng { s }
    }
    pub fn next(&mut self) -> u64 {
        let result = self.s[1].wrapping_mul(5).rotate_left(7).wrapping_mul(9);
        let t = self.s[1] << 17;
        self.s[2] ^= self.s[0];
        self.s[3] ^= self.s[1];
        self.s[1] ^= self.s[2];
        self.s[0] ^= self.s[3];
        self.s[2] ^= t;
        self.s[3] = self.s[3].rotate_left(45);
        result
    }
    /// uniform in 0..n (n > 0)
    pub fn below(&mut self, n: u64) -> u64 {
        debug_assert!(n > 0);
        // multiply-shift; bias is irrelevant here
        ((self.next() as u128 * n as u128) >> 64) as u64
    }
    pub fn range(&mut self, lo: i64, hi_incl: i64) -> i64 {
        lo + self.below((hi_incl - lo + 1) as u64) as i64
    }
    pub fn usize(&mut self, n: usize) -> usize {
        self.below(n as u64) as usize
    }
    /// true with probability num/den
    pub fn chance(&mut self, num: u64, den: u64) -> bool {
        self.below(den) < num
    }
    pub fn pick<T: Clone>(&mut self, xs: &[T]) -> T {
        xs[self.usize(xs.len())].clone()
    }
    pub fn shuffle<T>(&mut self, xs: &mut [T]) {
        for i in (1..xs.len()).rev() {
            let j = self.usize(i + 1);
            xs.swap(i, j);
        }
    }
    pub fn fork(&mut self) -> Rng {
        Rng::new(self.next())
    }
}

pub fn fnv(bytes: &[u8]) -> u64 {
    let mut h = 0xcbf29ce484222325u64;
    for b in bytes {
        h ^= *b as u64;
        h = h.wrapping_mul(0x100000001b3);
    }
    h
}

pub fn fnv_add(h: &mut u64, bytes: &[u8]) {
    for b in bytes {
        *h ^= *b as u64;
        *h = h.wrapping_mul(0x100000001b3);
    }
}
