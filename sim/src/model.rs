//! Reference interpreter for the generator's AST, written from the README, the
//! Applesoft semantics it cites and the property statements (DESIGN.md
//! Appendix A). It shares no code with abasic: no tokenizer, no parser, a
//! different program representation (flat instruction vectors per line).

use crate::ast::*;
use crate::sess::Rec;
use std::collections::{BTreeMap, HashMap};

#[derive(Clone, Debug, PartialEq)]
pub enum V {
    N(f64),
    S(String),
}

impl V {
    fn truthy(&self) -> bool {
        match self {
            V::N(n) => *n != 0.0,
            V::S(s) => !s.is_empty(),
        }
    }
    fn default_for(name: &str) -> V {
        if is_string_name(name) {
            V::S(String::new())
        } else {
            V::N(0.0)
        }
    }
    fn fits(&self, name: &str) -> bool {
        matches!((self, is_string_name(name)), (V::S(_), true) | (V::N(_), false))
    }
}

fn b(x: bool) -> V {
    V::N(if x { 1.0 } else { 0.0 })
}

/// error kinds, spelled exactly as `{:?}` of abasic's `InterpreterError`
pub mod ek {
    pub const TYPE_MISMATCH: &str = "TypeMismatch";
    pub const DATA_TYPE_MISMATCH: &str = "DataTypeMismatch";
    pub const UNDEF_STATEMENT: &str = "UndefinedStatement";
    pub const STACK_OVERFLOW: &str = "OutOfMemory(StackOverflow)";
    pub const ARRAY_TOO_LARGE: &str = "OutOfMemory(ArrayTooLarge)";
    pub const OUT_OF_DATA: &str = "OutOfData";
    pub const RETURN_WITHOUT_GOSUB: &str = "ReturnWithoutGosub";
    pub const NEXT_WITHOUT_FOR: &str = "NextWithoutFor";
    pub const BAD_SUBSCRIPT: &str = "BadSubscript";
    pub const ILLEGAL_QUANTITY: &str = "IllegalQuantity";
    pub const UNIMPLEMENTED: &str = "Unimplemented";
    pub const DIV_ZERO: &str = "DivisionByZero";
    pub const REDIM: &str = "RedimensionedArray";
    pub const CANT_CONTINUE: &str = "CannotContinue";
}

#[derive(Clone, Debug, PartialEq)]
pub struct MErr {
    pub kind: &'static str,
    pub line: Option<u64>,
}

#[derive(Clone, Copy, Debug, PartialEq)]
pub enum MState {
    Idle,
    Running,
    Awaiting,
}

#[derive(Clone, Debug)]
struct Frame {
    ret: (u64, usize),
    bindings: Vec<(String, V)>,
}

#[derive(Clone, Debug)]
struct Loop {
    var: String,
    loc: (u64, usize),
    to: f64,
    step: f64,
}

#[derive(Clone, Debug)]
struct Array {
    dims: Vec<usize>,
    cells: Vec<V>,
}

#[derive(Clone, Debug)]
struct Func {
    params: Vec<String>,
    body: Expr,
    line: u64,
}

/// a structured reply: the generator knows how its own text parses
#[derive(Clone, Debug, PartialEq, serde::Serialize, serde::Deserialize)]
pub struct Reply {
    pub text: String,
    pub first: ReplyItem,
    pub surplus: bool,
}

#[derive(Clone, Debug, PartialEq, serde::Serialize, serde::Deserialize)]
pub enum ReplyItem {
    Num(f64),
    Text(String),
}

pub const STACK_CAP: usize = 32;
pub const ARRAY_CAP: usize = 10000;
const M: u128 = 1 << 33;

pub struct Model {
    lines: BTreeMap<u64, Vec<Instr>>,
    data: Vec<(u64, DataItem)>,
    data_pos: usize,
    vars: HashMap<String, V>,
    arrays: HashMap<String, Array>,
    funcs: HashMap<String, Func>,
    frames: Vec<Frame>,
    loops: Vec<Loop>,
    pos: Option<(u64, usize)>,
    breakpoint: Option<(u64, usize)>,
    pub rng: u64,
    pub state: MState,
    pub out: Vec<Rec>,
    pub warnings: bool,
    pub tracing: bool,
    /// line whose code is being evaluated (definition line inside a function body)
    cur_line: Option<u64>,
    pub steps: u64,
    /// index into `out` where the statement being executed started (for failing-statement trimming)
    pub stmt_out_start: usize,
    /// statistics for reach probes
    pub max_frames: usize,
    pub max_loops: usize,
    pub forgot_inner_loops: u64,
    pub implicit_arrays: u64,
    pub fn_calls: u64,
    /// steps that only skipped the rest of a line after a THEN clause (no statement executed)
    pub skiprest_steps: u64,
    /// for every Print record ever emitted: the index of the statement that emitted it
    /// (steps minus rest-of-line skips at that moment)
    pub print_marks: Vec<u64>,
    in_function: u32,
}

type R<T> = Result<T, MErr>;

impl Model {
    pub fn new(program: &[Line], seed: u64) -> Model {
        let mut lines = BTreeMap::new();
        let mut raw: BTreeMap<u64, &Line> = BTreeMap::new();
        for l in program {
            // last writer wins, like entering the lines one by one
            raw.insert(l.num, l);
        }
        let mut data = vec![];
        for (n, l) in &raw {
            lines.insert(*n, compile_line(&l.stmts));
            let mut chunks = vec![];
            data_items_of(&l.stmts, &mut chunks);
            for c in chunks {
                if c.is_empty() {
                    data.push((*n, DataItem::Quoted(String::new())));
                }
                for it in c {
                    data.push((*n, it));
                }
            }
        }
        Model {
            lines,
            data,
            data_pos: 0,
            vars: HashMap::new(),
            arrays: HashMap::new(),
            funcs: HashMap::new(),
            frames: vec![],
            loops: vec![],
            pos: None,
            breakpoint: None,
            rng: (seed as u128 % M) as u64,
            state: MState::Idle,
            out: vec![],
            warnings: false,
            tracing: false,
            cur_line: None,
            steps: 0,
            stmt_out_start: 0,
            max_frames: 0,
            max_loops: 0,
            forgot_inner_loops: 0,
            implicit_arrays: 0,
            fn_calls: 0,
            skiprest_steps: 0,
            print_marks: vec![],
            in_function: 0,
        }
    }

    fn err(&self, kind: &'static str) -> MErr {
        MErr {
            kind,
            line: self.cur_line,
        }
    }

    // ---------------------------------------------------------------- commands

    /// RUN: clean slate, start at the first line
    pub fn run(&mut self) {
        self.vars.clear();
        self.arrays.clear();
        self.funcs.clear();
        self.frames.clear();
        self.loops.clear();
        self.data_pos = 0;
        self.breakpoint = None;
        self.pos = self.lines.keys().next().map(|n| (*n, 0));
        self.state = if self.pos.is_some() { MState::Running } else { MState::Idle };
    }

    /// CONT after a STOP
    pub fn cont(&mut self) -> R<()> {
        match self.breakpoint.take() {
            Some(p) => {
                self.pos = Some(p);
                self.state = MState::Running;
                self.normalise_pos();
                Ok(())
            }
            None => Err(MErr {
                kind: ek::CANT_CONTINUE,
                line: None,
            }),
        }
    }

    /// Run until the state is no longer Running or `budget` instructions were executed.
    pub fn settle(&mut self, budget: u64) -> R<()> {
        let mut n = 0;
        while self.state == MState::Running && n < budget {
            self.step()?;
            n += 1;
        }
        Ok(())
    }

    fn normalise_pos(&mut self) {
        // move past the end of a line to the next line, or finish
        loop {
            let Some((line, idx)) = self.pos else {
                self.state = MState::Idle;
                self.frames.clear();
                return;
            };
            let len = self.lines.get(&line).map(|l| l.len()).unwrap_or(0);
            if idx < len {
                return;
            }
            self.pos = self.lines.range((std::ops::Bound::Excluded(line), std::ops::Bound::Unbounded)).next().map(|(n, _)| (*n, 0));
        }
    }

    /// Execute one instruction.
    pub fn step(&mut self) -> R<()> {
        self.normalise_pos();
        let Some((line, idx)) = self.pos else {
            return Ok(());
        };
        self.steps += 1;
        self.cur_line = Some(line);
        self.stmt_out_start = self.out.len();
        let r = self.step_at(line, idx);
        let mark = self.steps - self.skiprest_steps;
        for rec in &self.out[self.stmt_out_start.min(self.out.len())..] {
            if matches!(rec, Rec::Print(_)) {
                self.print_marks.push(mark);
            }
        }
        match r {
            Ok(()) => {
                if self.state == MState::Running {
                    self.normalise_pos();
                }
                Ok(())
            }
            Err(e) => {
                self.state = MState::Idle;
                self.pos = None;
                self.frames.clear();
                Err(e)
            }
        }
    }

    fn step_at(&mut self, line: u64, mut idx: usize) -> R<()> {
        // an IF and the statement it selects are one step for tracing purposes; we simply
        // loop while the instruction is an IF that falls through to a statement on this line
        loop {
            if self.tracing {
                self.out.push(Rec::Trace(line));
            }
            let instr = self.lines[&line][idx].clone();
            match instr {
                Instr::SkipRest => {
                    self.skiprest_steps += 1;
                    self.pos = Some((line, usize::MAX));
                    return Ok(());
                }
                Instr::ElseGoto(n) => {
                    return self.goto(n);
                }
                Instr::If {
                    cond,
                    then_goto,
                    on_false,
                } => {
                    let c = self.eval(&cond)?;
                    if c.truthy() {
                        if let Some(n) = then_goto {
                            return self.goto(n);
                        }
                        idx += 1;
                    } else {
                        if on_false >= self.lines[&line].len() {
                            self.pos = Some((line, usize::MAX));
                            return Ok(());
                        }
                        idx = on_false;
                    }
                    // the selected statement runs in the same step
                    self.pos = Some((line, idx));
                    continue;
                }
                Instr::S(stmt) => {
                    self.pos = Some((line, idx + 1));
                    return self.exec(&stmt, line, idx);
                }
            }
        }
    }

    fn goto(&mut self, n: u64) -> R<()> {
        if self.lines.contains_key(&n) {
            self.pos = Some((n, 0));
            Ok(())
        } else {
            Err(self.err(ek::UNDEF_STATEMENT))
        }
    }

    // ---------------------------------------------------------------- statements

    fn exec(&mut self, s: &Stmt, line: u64, idx: usize) -> R<()> {
        match s {
            Stmt::Let { target, e, .. } => {
                let index = self.eval_index(target)?;
                let v = self.eval(e)?;
                self.assign(&target.name, index, v)
            }
            Stmt::Print { items, .. } => {
                let mut text = String::new();
                let mut ends_semi = false;
                for it in items {
                    match it {
                        PItem::Semi => ends_semi = true,
                        PItem::Comma => {
                            ends_semi = false;
                            text.push('\t');
                        }
                        PItem::E(e) => {
                            ends_semi = false;
                            match self.eval(e)? {
                                V::S(s) => text.push_str(&s),
                                V::N(n) => text.push_str(&format!("{}", n)),
                            }
                        }
                    }
                }
                if !ends_semi {
                    text.push('\n');
                }
                self.out.push(Rec::Print(text));
                Ok(())
            }
            Stmt::If { .. } => unreachable!("IF is compiled away"),
            Stmt::Goto(n) => self.goto(*n),
            Stmt::Gosub(n) => {
                if self.frames.len() == STACK_CAP {
                    return Err(self.err(ek::STACK_OVERFLOW));
                }
                let ret = (line, idx + 1);
                self.goto(*n)?;
                self.frames.push(Frame { ret, bindings: vec![] });
                self.max_frames = self.max_frames.max(self.frames.len());
                Ok(())
            }
            Stmt::Return => match self.frames.pop() {
                Some(f) => {
                    self.pos = Some(f.ret);
                    Ok(())
                }
                None => Err(self.err(ek::RETURN_WITHOUT_GOSUB)),
            },
            Stmt::For { var, from, to, step } => {
                let from = self.num(from)?;
                let to = self.num(to)?;
                let step = match step {
                    Some(s) => self.num(s)?,
                    None => 1.0,
                };
                self.forget_loop(var);
                if self.loops.len() == STACK_CAP {
                    return Err(self.err(ek::STACK_OVERFLOW));
                }
                self.loops.push(Loop {
                    var: var.clone(),
                    loc: (line, idx + 1),
                    to,
                    step,
                });
                self.max_loops = self.max_loops.max(self.loops.len());
                self.set_var(var, V::N(from))
            }
            Stmt::Next(var) => {
                let cur = match self.vars.get(var).cloned().unwrap_or_else(|| V::default_for(var)) {
                    V::N(n) => n,
                    V::S(_) => return Err(self.err(ek::TYPE_MISMATCH)),
                };
                let Some(l) = self.forget_loop(var) else {
                    return Err(self.err(ek::NEXT_WITHOUT_FOR));
                };
                let new = cur + l.step;
                let again = if l.step >= 0.0 { new <= l.to } else { new >= l.to };
                if again {
                    self.pos = Some(l.loc);
                    self.loops.push(l);
                }
                self.set_var(var, V::N(new))
            }
            Stmt::Read(targets) => {
                for t in targets {
                    let index = self.eval_index(t)?;
                    if self.data_pos >= self.data.len() {
                        return Err(self.err(ek::OUT_OF_DATA));
                    }
                    let (dline, item) = self.data[self.data_pos].clone();
                    self.data_pos += 1;
                    let v = match (is_string_name(&t.name), item) {
                        (true, DataItem::Num(n)) => V::S(format!("{}", n)),
                        (true, DataItem::Bare(s)) | (true, DataItem::Quoted(s)) => V::S(s),
                        (false, DataItem::Num(n)) => V::N(n),
                        (false, _) => {
                            // attributed to the DATA statement's line
                            return Err(MErr {
                                kind: ek::DATA_TYPE_MISMATCH,
                                line: Some(dline),
                            });
                        }
                    };
                    self.assign(&t.name, index, v)?;
                }
                Ok(())
            }
            Stmt::Data(_) | Stmt::Rem(_) => Ok(()),
            Stmt::Restore => {
                self.data_pos = 0;
                Ok(())
            }
            Stmt::Dim(_, idx) if idx.is_empty() => Ok(()),
            Stmt::Dim(name, idx) => {
                let index = self.eval_index_list(idx)?;
                if self.arrays.contains_key(name) {
                    return Err(self.err(ek::REDIM));
                }
                let a = self.make_array(name, &index)?;
                self.arrays.insert(name.clone(), a);
                Ok(())
            }
            Stmt::Def { name, params, body } => {
                self.funcs.insert(
                    name.clone(),
                    Func {
                        params: params.clone(),
                        body: body.clone(),
                        line,
                    },
                );
                Ok(())
            }
            Stmt::End => {
                self.pos = None;
                self.state = MState::Idle;
                self.frames.clear();
                Ok(())
            }
            Stmt::Stop => {
                self.out.push(Rec::Break(Some(line)));
                self.breakpoint = Some((line, idx + 1));
                self.pos = None;
                self.state = MState::Idle;
                Ok(())
            }
            Stmt::Input(_) => {
                // suspend *before* the statement: it is re-executed once a reply arrives
                self.pos = Some((line, idx));
                self.state = MState::Awaiting;
                Ok(())
            }
        }
    }

    /// Deliver a reply to the pending INPUT.
    pub fn reply(&mut self, r: &Reply) -> R<()> {
        assert_eq!(self.state, MState::Awaiting);
        let (line, idx) = self.pos.expect("awaiting at a position");
        self.cur_line = Some(line);
        self.stmt_out_start = self.out.len();
        self.steps += 1;
        let Instr::S(Stmt::Input(target)) = self.lines[&line][idx].clone() else {
            panic!("model: awaiting at a non-INPUT instruction");
        };
        if self.tracing {
            self.out.push(Rec::Trace(line));
        }
        let res = (|| -> R<()> {
            let index = self.eval_index(&target)?;
            let v = match (is_string_name(&target.name), &r.first) {
                (true, ReplyItem::Num(n)) => V::S(format!("{}", n)),
                (true, ReplyItem::Text(s)) => V::S(s.clone()),
                (false, ReplyItem::Num(n)) => V::N(*n),
                (false, ReplyItem::Text(_)) => {
                    self.out.push(Rec::Reenter);
                    // same request again, nothing else happens
                    return Ok(());
                }
            };
            self.assign(&target.name, index, v)?;
            if r.surplus {
                self.out.push(Rec::Extra);
            }
            self.pos = Some((line, idx + 1));
            self.state = MState::Running;
            Ok(())
        })();
        match res {
            Ok(()) => {
                if self.state == MState::Running {
                    self.normalise_pos();
                }
                Ok(())
            }
            Err(e) => {
                self.state = MState::Idle;
                self.pos = None;
                self.frames.clear();
                Err(e)
            }
        }
    }

    fn forget_loop(&mut self, var: &str) -> Option<Loop> {
        let i = self.loops.iter().rposition(|l| l.var == var)?;
        if i + 1 < self.loops.len() {
            self.forgot_inner_loops += 1;
        }
        let mut rest = self.loops.split_off(i);
        Some(rest.remove(0))
    }

    fn set_var(&mut self, name: &str, v: V) -> R<()> {
        if !v.fits(name) {
            return Err(self.err(ek::TYPE_MISMATCH));
        }
        self.vars.insert(name.to_string(), v);
        Ok(())
    }

    fn assign(&mut self, name: &str, index: Option<Vec<usize>>, v: V) -> R<()> {
        match index {
            None => self.set_var(name, v),
            Some(idx) => {
                self.warn_array(name);
                if !v.fits(name) {
                    return Err(self.err(ek::TYPE_MISMATCH));
                }
                self.ensure_array(name, idx.len())?;
                let a = self.arrays.get(name).unwrap();
                let li = linear(a, &idx).ok_or(self.err(ek::BAD_SUBSCRIPT))?;
                self.arrays.get_mut(name).unwrap().cells[li] = v;
                Ok(())
            }
        }
    }

    fn make_array(&self, name: &str, max: &[usize]) -> R<Array> {
        let mut total: u128 = 1;
        let mut dims = vec![];
        for m in max {
            let d = *m as u128 + 1;
            total = total.saturating_mul(d);
            if total > ARRAY_CAP as u128 {
                return Err(self.err(ek::ARRAY_TOO_LARGE));
            }
            dims.push(d as usize);
        }
        if dims.is_empty() {
            return Err(self.err(ek::BAD_SUBSCRIPT));
        }
        Ok(Array {
            dims,
            cells: vec![V::default_for(name); total as usize],
        })
    }

    fn ensure_array(&mut self, name: &str, arity: usize) -> R<()> {
        if !self.arrays.contains_key(name) {
            let a = self.make_array(name, &vec![10; arity])?;
            self.arrays.insert(name.to_string(), a);
            self.implicit_arrays += 1;
        }
        Ok(())
    }

    fn warn_array(&mut self, name: &str) {
        if self.warnings && !self.arrays.contains_key(name) {
            self.out.push(Rec::Warning(format!("Use of undeclared array '{}'.", name), self.cur_line));
        }
    }

    fn eval_index(&mut self, l: &LValue) -> R<Option<Vec<usize>>> {
        match &l.index {
            None => Ok(None),
            Some(idx) => Ok(Some(self.eval_index_list(idx)?)),
        }
    }

    fn eval_index_list(&mut self, idx: &[Expr]) -> R<Vec<usize>> {
        let mut out = vec![];
        for e in idx {
            let V::N(n) = self.eval(e)? else {
                return Err(self.err(ek::TYPE_MISMATCH));
            };
            // truncation toward zero, saturating; NaN is 0
            let i = n as i64;
            if i < 0 {
                return Err(self.err(ek::ILLEGAL_QUANTITY));
            }
            out.push(i as usize);
        }
        Ok(out)
    }

    // ---------------------------------------------------------------- expressions

    fn num(&mut self, e: &Expr) -> R<f64> {
        match self.eval(e)? {
            V::N(n) => Ok(n),
            V::S(_) => Err(self.err(ek::TYPE_MISMATCH)),
        }
    }

    fn lookup(&mut self, name: &str) -> V {
        for f in self.frames.iter().rev() {
            if let Some((_, v)) = f.bindings.iter().find(|(n, _)| n == name) {
                return v.clone();
            }
        }
        match self.vars.get(name) {
            Some(v) => v.clone(),
            None => {
                if self.warnings {
                    self.out
                        .push(Rec::Warning(format!("Use of undeclared variable '{}'.", name), self.cur_line));
                }
                V::default_for(name)
            }
        }
    }

    fn cell(&mut self, name: &str, idx: &[Expr]) -> R<V> {
        let index = self.eval_index_list(idx)?;
        self.warn_array(name);
        self.ensure_array(name, index.len())?;
        let a = self.arrays.get(name).unwrap();
        let li = linear(a, &index).ok_or(self.err(ek::BAD_SUBSCRIPT))?;
        Ok(a.cells[li].clone())
    }

    pub fn eval(&mut self, e: &Expr) -> R<V> {
        match e {
            Expr::Num(n) => Ok(V::N(*n)),
            Expr::Str(s) => Ok(V::S(s.clone())),
            Expr::Var(n) => Ok(self.lookup(n)),
            Expr::Cell(n, idx) => {
                if self.funcs.contains_key(n) {
                    // a defined function shadows an array of the same name
                    return self.call(n, idx);
                }
                self.cell(n, idx)
            }
            Expr::Paren(x) => self.eval(x),
            Expr::Pos(x) => self.eval(x),
            Expr::Neg(x) => match self.eval(x)? {
                V::N(n) => Ok(V::N(-n)),
                V::S(_) => Err(self.err(ek::TYPE_MISMATCH)),
            },
            Expr::Not(x) => {
                let v = self.eval(x)?;
                Ok(b(!v.truthy()))
            }
            Expr::Abs(x) => Ok(V::N(self.num(x)?.abs())),
            Expr::Int(x) => Ok(V::N(self.num(x)?.floor())),
            Expr::Rnd(x) => {
                let a = self.num(x)?;
                if a < 0.0 {
                    Err(self.err(ek::UNIMPLEMENTED))
                } else if a == 0.0 {
                    Ok(V::N(self.rng as f64 / M as f64))
                } else {
                    self.rng = ((1664525u128 * self.rng as u128 + 1013904223u128) % M) as u64;
                    Ok(V::N(self.rng as f64 / M as f64))
                }
            }
            Expr::Call(n, args) => {
                if self.funcs.contains_key(n) {
                    self.call(n, args)
                } else {
                    // not (yet) defined: the spelling denotes an array cell
                    self.cell(n, args)
                }
            }
            Expr::Bin(op, x, y) => {
                let a = self.eval(x)?;
                let c = self.eval(y)?;
                self.binop(*op, a, c)
            }
        }
    }

    fn call(&mut self, name: &str, args: &[Expr]) -> R<V> {
        let f = self.funcs.get(name).unwrap().clone();
        assert_eq!(f.params.len(), args.len(), "generator emits calls with the defined arity");
        let mut bindings = vec![];
        for (p, a) in f.params.iter().zip(args) {
            let v = self.eval(a)?;
            if !v.fits(p) {
                return Err(self.err(ek::TYPE_MISMATCH));
            }
            // a repeated parameter name keeps the last binding
            bindings.retain(|(n, _): &(String, V)| n != p);
            bindings.push((p.clone(), v));
        }
        if self.frames.len() == STACK_CAP {
            return Err(self.err(ek::STACK_OVERFLOW));
        }
        self.fn_calls += 1;
        let saved_line = self.cur_line;
        self.frames.push(Frame {
            ret: (0, 0),
            bindings,
        });
        self.max_frames = self.max_frames.max(self.frames.len());
        self.cur_line = Some(f.line);
        self.in_function += 1;
        let r = self.eval(&f.body);
        self.in_function -= 1;
        match r {
            Ok(v) => {
                self.frames.pop();
                self.cur_line = saved_line;
                Ok(v)
            }
            // the error keeps the definition's line
            Err(e) => Err(e),
        }
    }

    fn binop(&self, op: BinOp, a: V, c: V) -> R<V> {
        use BinOp::*;
        match op {
            Or => Ok(b(a.truthy() || c.truthy())),
            And => Ok(b(a.truthy() && c.truthy())),
            Eq | Ne | Lt | Le | Gt | Ge => {
                let r = match (&a, &c) {
                    (V::N(x), V::N(y)) => cmp(op, x.partial_cmp(y), x == y),
                    (V::S(x), V::S(y)) => cmp(op, Some(x.as_bytes().cmp(y.as_bytes())), x == y),
                    _ => return Err(self.err(ek::TYPE_MISMATCH)),
                };
                Ok(b(r))
            }
            Add | Sub | Mul | Div | Pow => {
                let (V::N(x), V::N(y)) = (&a, &c) else {
                    return Err(self.err(ek::TYPE_MISMATCH));
                };
                Ok(V::N(match op {
                    Add => x + y,
                    Sub => x - y,
                    Mul => x * y,
                    Div => {
                        if *y == 0.0 {
                            return Err(self.err(ek::DIV_ZERO));
                        }
                        x / y
                    }
                    Pow => x.powf(*y),
                    _ => unreachable!(),
                }))
            }
        }
    }

    // ---------------------------------------------------------------- inspection (for oracles)

    pub fn var(&self, name: &str) -> V {
        self.vars.get(name).cloned().unwrap_or_else(|| V::default_for(name))
    }

    pub fn vars_sorted(&self) -> Vec<(String, V)> {
        let mut v: Vec<_> = self.vars.iter().map(|(k, v)| (k.clone(), v.clone())).collect();
        v.sort_by(|a, b| a.0.cmp(&b.0));
        v
    }

    pub fn arrays_sorted(&self) -> Vec<(String, Vec<usize>)> {
        let mut v: Vec<_> = self.arrays.iter().map(|(k, a)| (k.clone(), a.dims.clone())).collect();
        v.sort();
        v
    }

    pub fn frames_len(&self) -> usize {
        self.frames.len()
    }
    pub fn loops_len(&self) -> usize {
        self.loops.len()
    }
    /// variables of the open loops, outermost first
    pub fn loop_vars(&self) -> Vec<String> {
        self.loops.iter().map(|l| l.var.clone()).collect()
    }
    pub fn data_pos(&self) -> usize {
        self.data_pos
    }
    pub fn has_breakpoint(&self) -> bool {
        self.breakpoint.is_some()
    }
    pub fn funcs_sorted(&self) -> Vec<String> {
        let mut v: Vec<_> = self.funcs.keys().cloned().collect();
        v.sort();
        v
    }
}

fn cmp(op: BinOp, ord: Option<std::cmp::Ordering>, eq: bool) -> bool {
    use std::cmp::Ordering::*;
    match op {
        BinOp::Eq => eq,
        BinOp::Ne => !eq,
        BinOp::Lt => ord == Some(Less),
        BinOp::Le => matches!(ord, Some(Less) | Some(Equal)),
        BinOp::Gt => ord == Some(Greater),
        BinOp::Ge => matches!(ord, Some(Greater) | Some(Equal)),
        _ => unreachable!(),
    }
}

/// first subscript varies fastest is an implementation detail; the model uses its own
/// layout (last subscript fastest) — only in-range and arity checks are shared semantics
fn linear(a: &Array, idx: &[usize]) -> Option<usize> {
    if idx.len() != a.dims.len() {
        return None;
    }
    let mut li = 0usize;
    for (i, d) in idx.iter().zip(&a.dims) {
        if i >= d {
            return None;
        }
        li = li * d + i;
    }
    Some(li)
}
