//! The generator's AST and its BASIC spelling. The reference model executes the
//! AST; abasic executes the spelling; they share no tokenizer or parser.
//!
//! Identifier discipline: generated names use only the letters C J K Q V W Y Z
//! (plus digits and `$`). None of these letters occurs in any keyword, so no
//! keyword can form across a token boundary when abasic ignores blanks
//! (`T OR X` would be read as `TO RX`; README documents `SCORE` = `SC OR E`).

use serde::{Deserialize, Serialize};

#[derive(Clone, Copy, Debug, PartialEq, Eq, Hash, Serialize, Deserialize)]
pub enum BinOp {
    Or,
    And,
    Eq,
    Ne,
    Lt,
    Le,
    Gt,
    Ge,
    Add,
    Sub,
    Mul,
    Div,
    Pow,
}

impl BinOp {
    pub fn level(self) -> u8 {
        match self {
            BinOp::Or => 1,
            BinOp::And => 2,
            BinOp::Eq | BinOp::Ne | BinOp::Lt | BinOp::Le | BinOp::Gt | BinOp::Ge => 3,
            BinOp::Add | BinOp::Sub => 4,
            BinOp::Mul | BinOp::Div => 5,
            BinOp::Pow => 6,
        }
    }
    pub fn spelling(self) -> &'static str {
        match self {
            BinOp::Or => "OR",
            BinOp::And => "AND",
            BinOp::Eq => "=",
            BinOp::Ne => "<>",
            BinOp::Lt => "<",
            BinOp::Le => "<=",
            BinOp::Gt => ">",
            BinOp::Ge => ">=",
            BinOp::Add => "+",
            BinOp::Sub => "-",
            BinOp::Mul => "*",
            BinOp::Div => "/",
            BinOp::Pow => "^",
        }
    }
}

#[derive(Clone, Debug, PartialEq, Serialize, Deserialize)]
pub enum Expr {
    Num(f64),
    Str(String),
    Var(String),
    Cell(String, Vec<Expr>),
    Neg(Box<Expr>),
    Pos(Box<Expr>),
    Not(Box<Expr>),
    Bin(BinOp, Box<Expr>, Box<Expr>),
    Abs(Box<Expr>),
    Int(Box<Expr>),
    Rnd(Box<Expr>),
    /// user function: full symbol name, e.g. "FNC"
    Call(String, Vec<Expr>),
    /// explicit (redundant) parentheses
    Paren(Box<Expr>),
}

#[derive(Clone, Debug, PartialEq, Serialize, Deserialize)]
pub struct LValue {
    pub name: String,
    pub index: Option<Vec<Expr>>,
}

#[derive(Clone, Debug, PartialEq, Serialize, Deserialize)]
pub enum PItem {
    E(Expr),
    Semi,
    Comma,
}

#[derive(Clone, Debug, PartialEq, Serialize, Deserialize)]
pub enum DataItem {
    /// canonical numeral (prints as Rust Display)
    Num(f64),
    /// unquoted text without , : " and without leading/trailing blanks, not numeric-looking
    Bare(String),
    /// quoted text without "
    Quoted(String),
}

#[derive(Clone, Debug, PartialEq, Serialize, Deserialize)]
pub enum Branch {
    Line(u64),
    Stmts(Vec<Stmt>),
}

#[derive(Clone, Debug, PartialEq, Serialize, Deserialize)]
pub enum Stmt {
    Let { kw: bool, target: LValue, e: Expr },
    Print { q: bool, items: Vec<PItem> },
    If { cond: Expr, then: Branch, els: Option<Branch> },
    Goto(u64),
    Gosub(u64),
    Return,
    For { var: String, from: Expr, to: Expr, step: Option<Expr> },
    Next(String),
    Read(Vec<LValue>),
    Data(Vec<DataItem>),
    Restore,
    Dim(String, Vec<Expr>),
    Def { name: String, params: Vec<String>, body: Expr },
    End,
    Stop,
    Input(LValue),
    Rem(String),
}

#[derive(Clone, Debug, PartialEq, Serialize, Deserialize)]
pub struct Line {
    pub num: u64,
    pub stmts: Vec<Stmt>,
}

// ------------------------------------------------------------------ printer

pub fn fmt_num(v: f64) -> String {
    // finite non-negative numerals only; Rust Display never uses exponents
    format!("{}", v)
}

fn is_atom(e: &Expr) -> bool {
    matches!(
        e,
        Expr::Num(_)
            | Expr::Str(_)
            | Expr::Var(_)
            | Expr::Cell(..)
            | Expr::Abs(_)
            | Expr::Int(_)
            | Expr::Rnd(_)
            | Expr::Call(..)
            | Expr::Paren(_)
    )
}

fn level(e: &Expr) -> u8 {
    match e {
        Expr::Bin(op, ..) => op.level(),
        Expr::Neg(_) | Expr::Pos(_) | Expr::Not(_) => 7,
        Expr::Num(v) if *v < 0.0 || (v.is_sign_negative()) => 7,
        _ => 8,
    }
}

pub fn print_expr(e: &Expr) -> String {
    match e {
        Expr::Num(v) => {
            if v.is_sign_negative() {
                // only produced by shrinking; spell as unary minus
                format!("-{}", fmt_num(-*v))
            } else {
                fmt_num(*v)
            }
        }
        Expr::Str(s) => format!("\"{}\"", s),
        Expr::Var(n) => n.clone(),
        Expr::Cell(n, idx) => format!("{}({})", n, idx.iter().map(print_expr).collect::<Vec<_>>().join(", ")),
        Expr::Neg(x) => format!("-{}", print_unary_operand(x)),
        Expr::Pos(x) => format!("+{}", print_unary_operand(x)),
        Expr::Not(x) => format!("NOT {}", print_unary_operand(x)),
        Expr::Bin(op, a, b) => {
            let l = op.level();
            // left-assoc: left child may be same level; right child must be strictly higher
            let sa = if level(a) >= l { print_expr(a) } else { format!("({})", print_expr(a)) };
            let sb = if level(b) > l { print_expr(b) } else { format!("({})", print_expr(b)) };
            format!("{} {} {}", sa, op.spelling(), sb)
        }
        Expr::Abs(x) => format!("ABS({})", print_expr(x)),
        Expr::Int(x) => format!("INT({})", print_expr(x)),
        Expr::Rnd(x) => format!("RND({})", print_expr(x)),
        Expr::Call(n, args) => format!("{}({})", n, args.iter().map(print_expr).collect::<Vec<_>>().join(", ")),
        Expr::Paren(x) => format!("({})", print_expr(x)),
    }
}

fn print_unary_operand(x: &Expr) -> String {
    // a single unary operator applies to a term or a parenthesised expression
    let neg_lit = matches!(x, Expr::Num(v) if v.is_sign_negative());
    if is_atom(x) && !neg_lit {
        print_expr(x)
    } else {
        format!("({})", print_expr(x))
    }
}

pub fn print_lvalue(l: &LValue) -> String {
    match &l.index {
        None => l.name.clone(),
        Some(idx) => format!("{}({})", l.name, idx.iter().map(print_expr).collect::<Vec<_>>().join(", ")),
    }
}

pub fn print_data_item(d: &DataItem) -> String {
    match d {
        DataItem::Num(v) => {
            if v.is_sign_negative() {
                format!("-{}", fmt_num(-*v))
            } else {
                fmt_num(*v)
            }
        }
        DataItem::Bare(s) => s.clone(),
        DataItem::Quoted(s) => format!("\"{}\"", s),
    }
}

fn print_branch(b: &Branch) -> String {
    match b {
        Branch::Line(n) => format!("{}", n),
        Branch::Stmts(s) => join_stmts(s),
    }
}

pub fn print_stmt(s: &Stmt) -> String {
    match s {
        Stmt::Let { kw, target, e } => {
            format!("{}{} = {}", if *kw { "LET " } else { "" }, print_lvalue(target), print_expr(e))
        }
        Stmt::Print { q, items } => {
            let mut out = String::from(if *q { "?" } else { "PRINT" });
            for it in items {
                match it {
                    PItem::E(e) => {
                        out.push(' ');
                        out.push_str(&print_expr(e));
                    }
                    PItem::Semi => out.push(';'),
                    PItem::Comma => out.push(','),
                }
            }
            out
        }
        Stmt::If { cond, then, els } => {
            let mut out = format!("IF {} THEN {}", print_expr(cond), print_branch(then));
            if let Some(e) = els {
                out.push_str(" ELSE ");
                out.push_str(&print_branch(e));
            }
            out
        }
        Stmt::Goto(n) => format!("GOTO {}", n),
        Stmt::Gosub(n) => format!("GOSUB {}", n),
        Stmt::Return => "RETURN".into(),
        Stmt::For { var, from, to, step } => {
            let mut out = format!("FOR {} = {} TO {}", var, print_expr(from), print_expr(to));
            if let Some(s) = step {
                out.push_str(&format!(" STEP {}", print_expr(s)));
            }
            out
        }
        Stmt::Next(v) => format!("NEXT {}", v),
        Stmt::Read(ls) => format!("READ {}", ls.iter().map(print_lvalue).collect::<Vec<_>>().join(", ")),
        Stmt::Data(items) => {
            if items.is_empty() {
                "DATA".into()
            } else {
                format!("DATA {}", items.iter().map(print_data_item).collect::<Vec<_>>().join(", "))
            }
        }
        Stmt::Restore => "RESTORE".into(),
        // `DIM X` without subscripts is legal and does nothing (it declares nothing: a later read of X still warns)
        Stmt::Dim(n, idx) if idx.is_empty() => format!("DIM {}", n),
        Stmt::Dim(n, idx) => format!("DIM {}({})", n, idx.iter().map(print_expr).collect::<Vec<_>>().join(", ")),
        Stmt::Def { name, params, body } => {
            // "FNC" is spelled "FN C" half of the time by the caller via name; keep canonical here
            format!("DEF {}({}) = {}", name, params.join(", "), print_expr(body))
        }
        Stmt::End => "END".into(),
        Stmt::Stop => "STOP".into(),
        Stmt::Input(l) => format!("INPUT {}", print_lvalue(l)),
        Stmt::Rem(t) => format!("REM{}", t),
    }
}

pub fn print_line_body(stmts: &[Stmt]) -> String {
    join_stmts(stmts)
}

/// Statements are joined with " : ", except that nothing is put between a DATA
/// statement ending in a quoted item and its terminating colon (blanks after a
/// closing quote are a DATA-dialect corner the generator stays out of).
fn join_stmts(stmts: &[Stmt]) -> String {
    let mut out = String::new();
    for (i, s) in stmts.iter().enumerate() {
        if i > 0 {
            let tight = matches!(&stmts[i - 1], Stmt::Data(items) if matches!(items.last(), Some(DataItem::Quoted(_))));
            out.push_str(if tight { ": " } else { " : " });
        }
        out.push_str(&print_stmt(s));
    }
    out
}

pub fn print_line(l: &Line) -> String {
    format!("{} {}", l.num, print_line_body(&l.stmts))
}

pub fn is_string_name(n: &str) -> bool {
    n.ends_with('$')
}

// ------------------------------------------------------------------ flat form

/// One line compiled to the linear form abasic's token stream has: a resumable
/// position is an index into this vector.
#[derive(Clone, Debug, PartialEq)]
pub enum Instr {
    S(Stmt),
    /// IF cond: true -> fall through to idx+1 (or jump to line `then_goto`);
    /// false -> continue at `on_false` (== len means end of line)
    If {
        cond: Expr,
        then_goto: Option<u64>,
        on_false: usize,
    },
    /// `ELSE n` / reached only through `on_false`
    ElseGoto(u64),
    /// the position of an ELSE token reached by falling out of the THEN statement:
    /// the rest of the line is skipped
    SkipRest,
}

pub fn compile_line(stmts: &[Stmt]) -> Vec<Instr> {
    let mut out = vec![];
    compile_into(stmts, &mut out);
    out
}

fn compile_into(stmts: &[Stmt], out: &mut Vec<Instr>) {
    for s in stmts {
        match s {
            Stmt::If { cond, then, els } => {
                let at = out.len();
                out.push(Instr::SkipRest); // placeholder
                let then_goto = match then {
                    Branch::Line(n) => Some(*n),
                    Branch::Stmts(ts) => {
                        compile_into(ts, out);
                        None
                    }
                };
                let on_false;
                match els {
                    None => {
                        // no ELSE: false skips the whole rest of the line; patched below
                        on_false = usize::MAX;
                    }
                    Some(b) => {
                        out.push(Instr::SkipRest);
                        on_false = out.len();
                        match b {
                            Branch::Line(n) => out.push(Instr::ElseGoto(*n)),
                            Branch::Stmts(es) => compile_into(es, out),
                        }
                    }
                }
                out[at] = Instr::If {
                    cond: cond.clone(),
                    then_goto,
                    on_false,
                };
            }
            other => out.push(Instr::S(other.clone())),
        }
    }
}

/// DATA items of a line in textual order (nested branches included).
pub fn data_items_of(stmts: &[Stmt], out: &mut Vec<Vec<DataItem>>) {
    for s in stmts {
        match s {
            Stmt::Data(items) => out.push(items.clone()),
            Stmt::If { then, els, .. } => {
                if let Branch::Stmts(t) = then {
                    data_items_of(t, out);
                }
                if let Some(Branch::Stmts(e)) = els {
                    data_items_of(e, out);
                }
            }
            _ => {}
        }
    }
}
