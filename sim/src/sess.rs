//! The host side of the seam: a wrapper around the real `abasic_core::Interpreter`
//! that performs one host call at a time, catches unwinds, drains the output and
//! canonicalises everything into plain data.

use abasic_core::{Interpreter, InterpreterOutput, InterpreterState, TracedInterpreterError};
use serde::{Deserialize, Serialize};
use std::cell::RefCell;
use std::panic::{catch_unwind, AssertUnwindSafe};

#[derive(Clone, Debug, PartialEq, Serialize, Deserialize)]
pub enum Op {
    /// start_evaluating(text)            legal when Idle
    Line(String),
    /// continue_evaluating()             legal when Running
    Tick,
    /// provide_input(text)               legal when AwaitingInput
    Reply(String),
    /// break_at_current_location()       legal when Running | AwaitingInput
    Break,
    /// install a fresh interpreter       legal when NewInterpreterRequested
    Replace,
    /// randomize(seed)                   any time
    Seed(u64),
    /// set enable_tracing / enable_warnings
    Flags(bool, bool),
    /// Ticks until the state is not Running (at most n ticks). Legal when Running.
    Settle(u32),
}

#[derive(Clone, Copy, Debug, PartialEq, Eq, Hash, Serialize, Deserialize)]
pub enum St {
    Idle,
    Running,
    Awaiting,
    NewReq,
}

#[derive(Clone, Debug, PartialEq, Serialize, Deserialize)]
pub enum Rec {
    Print(String),
    Break(Option<u64>),
    Warning(String, Option<u64>),
    Trace(u64),
    Extra,
    Reenter,
}

impl Rec {
    pub fn from_output(o: InterpreterOutput) -> Rec {
        match o {
            InterpreterOutput::Print(s) => Rec::Print(s),
            InterpreterOutput::Break(l) => Rec::Break(l),
            InterpreterOutput::Warning(m, l) => Rec::Warning(m, l),
            InterpreterOutput::Trace(l) => Rec::Trace(l),
            InterpreterOutput::ExtraIgnored => Rec::Extra,
            InterpreterOutput::Reenter => Rec::Reenter,
        }
    }
    pub fn kind(&self) -> &'static str {
        match self {
            Rec::Print(_) => "Print",
            Rec::Break(_) => "Break",
            Rec::Warning(..) => "Warning",
            Rec::Trace(_) => "Trace",
            Rec::Extra => "Extra",
            Rec::Reenter => "Reenter",
        }
    }
}

#[derive(Clone, Debug, PartialEq, Serialize, Deserialize)]
pub struct ErrInfo {
    /// `{:?}` of `err.error`, e.g. `Syntax(UnexpectedToken)`, `OutOfMemory(StackOverflow)`
    pub kind: String,
    /// numbered line of `err.location`
    pub line: Option<u64>,
    pub tok: Option<usize>,
    /// first line of `to_string()`
    pub text: String,
    /// caret rendering, or the panic message if rendering unwound
    pub caret: Result<Vec<String>, String>,
}

#[derive(Clone, Debug, PartialEq)]
pub enum Res {
    Ok,
    Err(ErrInfo),
    Panic(String),
}

#[derive(Clone, Debug)]
pub struct Call {
    pub recs: Vec<Rec>,
    pub res: Res,
    pub state: St,
}

impl Call {
    pub fn err(&self) -> Option<&ErrInfo> {
        match &self.res {
            Res::Err(e) => Some(e),
            _ => None,
        }
    }
    pub fn panicked(&self) -> Option<&str> {
        match &self.res {
            Res::Panic(p) => Some(p.as_str()),
            _ => None,
        }
    }
}

thread_local! {
    static LAST_PANIC: RefCell<Option<String>> = RefCell::new(None);
    static GUARD_DEPTH: std::cell::Cell<u32> = std::cell::Cell::new(0);
}

/// Install a quiet panic hook that records `file:line: message`.
pub fn install_panic_hook() {
    std::panic::set_hook(Box::new(|info| {
        let loc = info
            .location()
            .map(|l| format!("{}:{}", l.file(), l.line()))
            .unwrap_or_else(|| "?".into());
        let msg = if let Some(s) = info.payload().downcast_ref::<&str>() {
            s.to_string()
        } else if let Some(s) = info.payload().downcast_ref::<String>() {
            s.clone()
        } else {
            "<non-string panic>".to_string()
        };
        let first = msg.lines().next().unwrap_or("").to_string();
        if GUARD_DEPTH.with(|d| d.get()) == 0 {
            // not inside a guarded interpreter call: this is a bug of the harness itself
            eprintln!("HARNESS PANIC at {}: {}", loc, msg);
        }
        LAST_PANIC.with(|p| *p.borrow_mut() = Some(format!("{}: {}", normalise_path(&loc), first)));
    }));
}

fn normalise_path(p: &str) -> String {
    // strip everything up to the crate directory so fingerprints are location independent
    for marker in ["abasic-core/", "abasic-web/", "abasic-lsp/", "abasic-cli/"] {
        if let Some(i) = p.find(marker) {
            return p[i..].to_string();
        }
    }
    p.to_string()
}

pub fn take_panic() -> String {
    LAST_PANIC
        .with(|p| p.borrow_mut().take())
        .unwrap_or_else(|| "<panic without message>".into())
}

/// Run `f`, converting an unwind into `Err(location: message)`.
pub fn guarded<T>(f: impl FnOnce() -> T) -> Result<T, String> {
    GUARD_DEPTH.with(|d| d.set(d.get() + 1));
    let r = catch_unwind(AssertUnwindSafe(f));
    GUARD_DEPTH.with(|d| d.set(d.get() - 1));
    match r {
        Ok(v) => Ok(v),
        Err(_) => Err(take_panic()),
    }
}

pub fn st_of(s: InterpreterState) -> St {
    match s {
        InterpreterState::Idle => St::Idle,
        InterpreterState::Running => St::Running,
        InterpreterState::AwaitingInput => St::Awaiting,
        InterpreterState::NewInterpreterRequested => St::NewReq,
    }
}

pub fn err_info(
    err: &TracedInterpreterError,
    it: &Interpreter,
    line: Option<&str>,
) -> ErrInfo {
    let kind = format!("{:?}", err.error);
    let (ln, tok) = match &err.location {
        Some(loc) => {
            let l = format!("{:?}", loc.line);
            let n = l
                .strip_prefix("Line(")
                .and_then(|r| r.strip_suffix(')'))
                .and_then(|r| r.parse::<u64>().ok());
            (n, Some(loc.token_index))
        }
        None => (None, None),
    };
    let text = guarded(|| err.to_string())
        .map(|s| s.lines().next().unwrap_or("").to_string())
        .unwrap_or_else(|p| format!("<to_string unwound: {p}>"));
    let caret = guarded(|| err.get_line_with_pointer_caret(it, line));
    ErrInfo {
        kind,
        line: ln,
        tok,
        text,
        caret,
    }
}

pub struct Sess {
    pub it: Interpreter,
    pub calls: u64,
    /// set once a call unwound: the object is in an unknown state
    pub poisoned: bool,
    /// `Op::Break` is also legal in the idle state (C01)
    pub allow_idle_break: bool,
}

impl Default for Sess {
    fn default() -> Self {
        Sess::new()
    }
}

impl Sess {
    pub fn new() -> Sess {
        Sess {
            it: Interpreter::default(),
            calls: 0,
            poisoned: false,
            allow_idle_break: false,
        }
    }

    pub fn from_interpreter(it: Interpreter) -> Sess {
        Sess {
            it,
            calls: 0,
            poisoned: false,
            allow_idle_break: false,
        }
    }

    pub fn state(&self) -> St {
        st_of(self.it.get_state())
    }

    pub fn legal(&self, op: &Op) -> bool {
        let s = self.state();
        match op {
            Op::Line(_) => s == St::Idle,
            Op::Tick | Op::Settle(_) => s == St::Running,
            Op::Reply(_) => s == St::Awaiting,
            // (a break that arrives while idle — the CLI can deliver one — only in sessions that opted in)
            Op::Break => s == St::Running || s == St::Awaiting || (self.allow_idle_break && s == St::Idle),
            Op::Replace => s == St::NewReq,
            Op::Seed(_) | Op::Flags(..) => true,
        }
    }

    /// Install a default-constructed interpreter whatever the state (used by twins that model
    /// "NEW gives a fresh interpreter" independently of how the core signals it).
    pub fn force_fresh(&mut self) {
        self.it = Interpreter::default();
    }

    fn drain(&mut self) -> Vec<Rec> {
        self.it
            .take_output()
            .into_iter()
            .map(Rec::from_output)
            .collect()
    }

    fn finish(&mut self, r: Result<Result<(), TracedInterpreterError>, String>, line: Option<&str>) -> Call {
        self.calls += 1;
        match r {
            Ok(Ok(())) => Call {
                recs: self.drain(),
                res: Res::Ok,
                state: self.state(),
            },
            Ok(Err(e)) => {
                let info = err_info(&e, &self.it, line);
                Call {
                    recs: self.drain(),
                    res: Res::Err(info),
                    state: self.state(),
                }
            }
            Err(p) => {
                self.poisoned = true;
                let recs = guarded(|| self.drain()).unwrap_or_default();
                Call {
                    recs,
                    res: Res::Panic(p),
                    state: self.state(),
                }
            }
        }
    }

    /// Apply one op. Returns None when the op is not legal in the current state
    /// (replay semantics: such ops are skipped) or the session is poisoned.
    pub fn apply(&mut self, op: &Op) -> Option<Call> {
        if self.poisoned || !self.legal(op) {
            return None;
        }
        Some(match op {
            Op::Line(text) => {
                let it = &mut self.it;
                let r = guarded(|| it.start_evaluating(text));
                self.finish(r, Some(text.as_str()))
            }
            Op::Tick => {
                let it = &mut self.it;
                let r = guarded(|| it.continue_evaluating());
                self.finish(r, None)
            }
            Op::Settle(n) => {
                let mut recs = vec![];
                let mut last = Call {
                    recs: vec![],
                    res: Res::Ok,
                    state: self.state(),
                };
                let mut k = 0;
                while self.state() == St::Running && k < *n && !self.poisoned {
                    let it = &mut self.it;
                    let r = guarded(|| it.continue_evaluating());
                    let c = self.finish(r, None);
                    recs.extend(c.recs.iter().cloned());
                    let stop = !matches!(c.res, Res::Ok);
                    last = c;
                    k += 1;
                    if stop {
                        break;
                    }
                }
                last.recs = recs;
                last
            }
            Op::Reply(text) => {
                let it = &mut self.it;
                let t = text.clone();
                let r = guarded(|| {
                    it.provide_input(t);
                    Ok(())
                });
                self.finish(r, None)
            }
            Op::Break => {
                let it = &mut self.it;
                let r = guarded(|| {
                    it.break_at_current_location();
                    Ok(())
                });
                self.finish(r, None)
            }
            Op::Replace => {
                self.it = Interpreter::default();
                self.finish(Ok(Ok(())), None)
            }
            Op::Seed(s) => {
                let it = &mut self.it;
                let s = *s;
                let r = guarded(|| {
                    it.randomize(s);
                    Ok(())
                });
                self.finish(r, None)
            }
            Op::Flags(t, w) => {
                self.it.enable_tracing = *t;
                self.it.enable_warnings = *w;
                self.finish(Ok(Ok(())), None)
            }
        })
    }

    /// Enter a line and tick until the interpreter is no longer Running (cap `max_ticks`).
    /// Returns all calls made.
    pub fn line_and_settle(&mut self, text: &str, max_ticks: u32) -> Vec<Call> {
        let mut calls = vec![];
        if let Some(c) = self.apply(&Op::Line(text.to_string())) {
            calls.push(c);
        }
        let mut k = 0;
        while self.state() == St::Running && k < max_ticks && !self.poisoned {
            if let Some(c) = self.apply(&Op::Tick) {
                calls.push(c);
            }
            k += 1;
        }
        calls
    }

    pub fn probe(&self, deep: bool) -> abasic_core::VerifProbe {
        self.it.verif_probe(deep)
    }

    /// LIST as a vector of lines (each ends in '\n'); None if the session is not idle.
    pub fn list(&mut self) -> Option<Vec<String>> {
        let c = self.apply(&Op::Line("LIST".into()))?;
        Some(
            c.recs
                .into_iter()
                .filter_map(|r| match r {
                    Rec::Print(s) => Some(s),
                    _ => None,
                })
                .collect(),
        )
    }

    /// number of the first stored line (read through the probe-free public API: LIST)
    pub fn list_quiet_first(&mut self) -> Option<u64> {
        // LIST is only legal when idle; callers use this right before RUN
        let l = self.list()?;
        l.first().and_then(|t| t.split(' ').next().and_then(|n| n.parse().ok()))
    }

    /// token spellings of a stored line, taken from its listing (tokens are joined by single blanks there)
    pub fn tokens_of_line(&mut self, line: Option<u64>) -> Vec<String> {
        let Some(n) = line else { return vec![] };
        // only usable when idle or running: use the probe when the location is on that line
        let p = self.probe(false);
        if p.location.0 == Some(n) && !p.line_tokens.is_empty() {
            return p.line_tokens;
        }
        if self.state() != St::Idle {
            return vec![];
        }
        // from the listing: words separated by blanks (string/REM/DATA text may add words, which only
        // loosens a bound computed from the count of IF words)
        let prefix = format!("{} ", n);
        self.list()
            .unwrap_or_default()
            .into_iter()
            .find(|l| l.starts_with(&prefix))
            .map(|l| l[prefix.len()..].trim_end().split(' ').map(|w| w.to_string()).collect())
            .unwrap_or_default()
    }
}
