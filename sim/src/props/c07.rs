//! C07 — break and CONT are transparent to the interrupted program.
//! Twin runs on the real interpreter: uninterrupted baseline vs. the same session
//! with break / inspect / CONT injected at chosen turn boundaries.

use crate::ast::*;
use crate::drive::*;
use crate::engine::{shrink_vec, Ctx, Meta, Prop, Tier, Violation};
use crate::gen::{reply_script, Gen, Knobs, NUM_VARS, STR_VARS};
use crate::lockstep::{enter_program, shrink_prog_case, ProgCase};
use crate::prng::{fnv, Rng};
use crate::sess::{Op, Sess};
use serde::{Deserialize, Serialize};

pub struct C07;

#[derive(Clone, Debug, Serialize, Deserialize)]
pub enum Mode {
    /// break at exactly these boundaries
    Breaks(Vec<BreakPoint>),
    /// every boundary of the baseline in turn, one at a time (single-fault exhaustive for this program)
    AllSingletons(Vec<Inspect>),
    /// every subset of the boundaries of a short run (<= 10 boundaries): exhaustive multi-fault placement
    AllSubsets(Vec<Inspect>),
    /// at every STOP: `<var> = <value>` then CONT, compared with the program in which STOP is replaced by that assignment
    AssignAtStop(String, f64),
}

#[derive(Clone, Debug, Serialize, Deserialize)]
pub struct Case {
    pub prog: ProgCase,
    pub mode: Mode,
}

fn inspection(rng: &mut Rng) -> Inspect {
    let v = rng.pick(NUM_VARS);
    let w = rng.pick(NUM_VARS);
    let sv = rng.pick(STR_VARS);
    match rng.below(27) {
        0..=2 => Inspect::Stmt(format!("PRINT {v}")),
        3 => Inspect::Stmt(format!("PRINT {v} + {w} * 2; {sv}")),
        4 => Inspect::Stmt(format!("PRINT ABS({v}) ; INT({w} / 3) ; RND(0)")),
        5 => Inspect::Stmt(format!("? {sv} ; \"<\" ; {sv} = \"hello\"")),
        6 => Inspect::Stmt("LIST".into()),
        7 => Inspect::Stmt("REM nothing".into()),
        8 => Inspect::Cell(rng.pick(&["C", "K", "C$"]).to_string(), vec![rng.below(4)]),
        9 => Inspect::Cell("V".into(), vec![rng.below(4), rng.below(4)]),
        10 => Inspect::Call(rng.pick(&["FNC", "FNJ"]).to_string(), format!("{}", rng.below(5))),
        // failing inspections
        11 => Inspect::Stmt("PRINT 1 / 0".into()),
        12 => Inspect::Stmt("PRINT \"A\" + 1".into()),
        13 => Inspect::Stmt(format!("PRINT -{sv}")),
        14 => Inspect::BadCell(rng.pick(&["C", "V", "C$", "YZ"]).to_string()),
        15 => Inspect::Call("FNK".into(), "1".into()),
        16 => Inspect::Call("FNQ".into(), "1".into()),
        17 => Inspect::Call(rng.pick(&["FNC", "FNJ"]).to_string(), "\"x\"".into()),
        18 => Inspect::Stmt(format!("PRINT {v} < {sv}")),
        // statements that always fail at the prompt and assign nothing
        19 => Inspect::Stmt(format!("DEF {}({}) = {} + 100", rng.pick(&["FNC", "FNJ", "FNW"]), rng.pick(&["Y", "C, J", "Q$"]), rng.pick(&["Y", "1", "C"]))),
        20 => Inspect::Stmt("NEXT Q9".into()),
        // immediate lines of several statements (each statement is its own host call)
        22 => Inspect::Stmt(format!("PRINT {v} : PRINT {w}")),
        23 => Inspect::Stmt(format!("PRINT {v} : PRINT 1 / 0 : PRINT {w}")),
        24 => Inspect::Stmt("REM : PRINT 1 : REM".into()),
        // ill-typed cell assignments: refused, and nothing may be created on the way
        25 => Inspect::Stmt(rng.pick(&["C(1) = \"x\"", "C$(1) = 5", "K(2) = \"y\"", "YZ(1, 1, 1) = \"z\"", "V(1, 1) = \"w\"", "C = \"x\"", "C$ = 5"]).to_string()),
        21 => Inspect::Redim(rng.pick(&["C", "V", "C$", "K", "YZ"]).to_string(), rng.pick(&[1u64, 3, 10, 12])),
        _ => Inspect::Stmt(format!("PRINT ({v}")),
    }
}

fn inspections(rng: &mut Rng) -> Vec<Inspect> {
    let n = rng.usize(4);
    (0..n).map(|_| inspection(rng)).collect()
}

fn reply_texts(c: &ProgCase) -> Vec<String> {
    c.replies.iter().map(|r| r.text.clone()).collect()
}

fn fresh_with(c: &ProgCase, lines: &[Line]) -> Result<Sess, Violation> {
    let mut s = Sess::new();
    let mut pc = c.clone();
    pc.lines = lines.to_vec();
    enter_program(&mut s, &pc, "C07")?;
    s.apply(&Op::Seed(c.seed));
    Ok(s)
}

fn run_once(c: &ProgCase, lines: &[Line], breaks: &[BreakPoint], at_stop: Option<&str>, cap: u32, ctx: &mut Ctx) -> Result<Obs, Violation> {
    let mut s = fresh_with(c, lines)?;
    let replies = reply_texts(c);
    let cfg = DriveCfg {
        replies: &replies,
        boundary_cap: cap,
        breaks,
        at_stop,
        prop: "C07",
    };
    drive_run(&mut s, Op::Line("RUN".into()), &cfg, ctx)
}

fn replace_stop(stmts: &[Stmt], with: &Stmt) -> Vec<Stmt> {
    stmts
        .iter()
        .map(|s| match s {
            Stmt::Stop => with.clone(),
            Stmt::If { cond, then, els } => {
                let rb = |b: &Branch| match b {
                    Branch::Line(n) => Branch::Line(*n),
                    Branch::Stmts(v) => Branch::Stmts(replace_stop(v, with)),
                };
                Stmt::If {
                    cond: cond.clone(),
                    then: rb(then),
                    els: els.as_ref().map(rb),
                }
            }
            other => other.clone(),
        })
        .collect()
}

impl Prop for C07 {
    const ID: &'static str = "C07";
    type Case = Case;

    fn meta() -> Meta {
        Meta {
            level: "fault_enumeration",
            rule: "Programs from the C03 grammar plus INPUT and STOP, with a reply script. Baseline: RUN to completion, STOPs answered by CONT at once. Perturbed: identical, but at a set K of turn boundaries (running or awaiting input) the host breaks in, issues 0-3 inspection lines that assign nothing (PRINT of scalars / existing cells / defined functions / RND(0), LIST; a share fail: 1/0, string arithmetic, bad subscript of an existing array, a function whose body fails, a function that overflows the frame cap, a call with an ill-typed argument, a syntax error, DIM of an existing array, DEF FN at the prompt, NEXT of a variable no program uses, immediate lines of several statements, ill-typed scalar and cell assignments) and then CONT. Mode AllSingletons places the break at EVERY boundary of the run in turn (single-fault exhaustive for that program, up to 400 boundaries; half of the programs in thorough, 1 in 6 in quick); mode AllSubsets enumerates ALL 2^n - 1 non-empty break sets of runs with n <= 10 boundaries (multi-fault exhaustive for that program); mode Breaks samples subsets of size 1-6 of longer runs; mode AssignAtStop compares `v = e` + CONT at each STOP with the program that has the assignment in place of STOP. Oracle: observable streams (prints, request positions, REENTER/EXTRA IGNORED, STOP notices, final error kind+line) equal record for record, final probe snapshot equal. distinct_nontrivial = distinct (program, break set, inspections) hashes among perturbed runs in which >= 1 break fired and the program ran >= 5 boundaries.",
            real: &["abasic-core Interpreter (break_at_current_location, CONT, immediate lines at a breakpoint, frame handling of failed calls)"],
            stub: &["the host (break timing, inspection lines, replies)"],
            assumptions: &[
                "statements that write in this dialect are excluded from inspections: reads of arrays that do not exist yet (implicit DIM), RND(positive), READ, INPUT, DIM, DEF, assignments, jumps, RUN, edits; function bodies are generated without arrays/RND so calling them is side-effect free",
                "when the baseline is cut at the boundary cap only the common prefix of the streams is compared",
            ],
            reach: &[
                "fault.break@running",
                "fault.break@awaiting",
                "fault.inspect_at_break(ok)",
                "fault.inspect_at_break(failing)",
                "fault.assign_at_stop",
                "reach.break_inside_gosub_depth>=2",
                "reach.break_inside_for",
                "reach.all_singletons_program",
                "reach.all_subsets_program",
            ],
        }
    }

    fn runs(tier: Tier) -> u64 {
        match tier {
            Tier::Quick => 50_000,
            Tier::Thorough => 1_500_000,
        }
    }

    fn generate(rng: &mut Rng, ctx: &mut Ctx) -> Case {
        let mut k = Knobs::swarm(rng);
        k.input = rng.chance(2, 3);
        k.stop = rng.chance(1, 2);
        k.pure_fn_bodies = true;
        // INPUT C(INT(RND(1) * 3)): a target whose subscript has a side effect; a break while the request
        // is pending must not evaluate it again
        k.rnd_input_subscript = rng.chance(1, 2);
        k.special_defs = rng.chance(2, 3);
        k.failures = rng.chance(1, 4);
        k.max_lines = 4 + rng.usize(20);
        let mode_pick = rng.below(12);
        if mode_pick == 0 {
            k.stop = true;
        }
        let want_subsets = match ctx.tier {
            Tier::Thorough => mode_pick == 7 || mode_pick == 8,
            Tier::Quick => mode_pick == 3,
        };
        if want_subsets {
            // short runs, so that all 2^n break sets are affordable
            k.max_lines = 2 + rng.usize(4);
            k.for_loops = false;
        }
        let mut grng = rng.fork();
        let (lines, info) = Gen::new(&mut grng, k).program();
        let replies = reply_script(rng, info.inputs * 2 + 2);
        let prog = ProgCase {
            lines,
            order_seed: rng.next() | 1,
            seed: rng.below(1000),
            replies,
            breaks: vec![],
            tracing: false,
            warnings: false,
            tick_cap: 600,
            await_breaks: vec![],
            stop_cmds: vec![],
            trace_via_command: false,
            reply_breaks: vec![],
        };
        let all = match ctx.tier {
            Tier::Thorough => mode_pick >= 1 && mode_pick <= 6,
            Tier::Quick => mode_pick == 1 || mode_pick == 2,
        };
        let subsets = match ctx.tier {
            Tier::Thorough => mode_pick == 7 || mode_pick == 8,
            Tier::Quick => mode_pick == 3,
        };
        let mode = if subsets {
            Mode::AllSubsets(inspections(rng))
        } else if mode_pick == 0 {
            // a numeric variable, a string variable, or a cell of a one-dimensional array
            let v = match rng.below(5) {
                0 => rng.pick(STR_VARS).to_string(),
                1 => format!("C({})", rng.below(10)),
                _ => rng.pick(NUM_VARS).to_string(),
            };
            Mode::AssignAtStop(v, rng.below(9) as f64)
        } else if all {
            Mode::AllSingletons(inspections(rng))
        } else {
            let n = 1 + rng.usize(6);
            let mut pts: Vec<u32> = (0..n)
                .map(|_| {
                    let hi = if rng.chance(1, 2) { 30 } else { 200 };
                    rng.below(hi) as u32
                })
                .collect();
            pts.sort();
            pts.dedup();
            Mode::Breaks(
                pts.into_iter()
                    .map(|at| BreakPoint {
                        at,
                        inspections: inspections(rng),
                    })
                    .collect(),
            )
        };
        Case { prog, mode }
    }

    fn execute(c: &Case, ctx: &mut Ctx) -> Option<Violation> {
        let cap = c.prog.tick_cap;
        let base = match run_once(&c.prog, &c.prog.lines, &[], None, cap, ctx) {
            Ok(o) => o,
            Err(v) => return Some(v),
        };
        let prog_hash = fnv(format!("{:?}", c.prog.lines.iter().map(print_line).collect::<Vec<_>>()).as_bytes());
        match &c.mode {
            Mode::Breaks(points) => {
                let extra = points.len() as u32 * 2;
                let p = match run_once(&c.prog, &c.prog.lines, points, None, cap + extra, ctx) {
                    Ok(o) => o,
                    Err(v) => return Some(v),
                };
                if p.breaks_fired > 0 && base.boundaries >= 5 {
                    ctx.nontrivial(prog_hash ^ fnv(format!("{:?}", points).as_bytes()));
                }
                let mut pp = p.clone();
                let mut bb = base.clone();
                if base.capped || p.capped {
                    pp.capped = true;
                    bb.capped = true;
                }
                compare_obs("C07", "baseline", &bb, "perturbed", &pp, false, true)
            }
            Mode::AllSingletons(insp) => {
                ctx.count("reach.all_singletons_program");
                let n = base.boundaries.min(400);
                for k in 0..n {
                    let pts = vec![BreakPoint {
                        at: k,
                        inspections: insp.clone(),
                    }];
                    let p = match run_once(&c.prog, &c.prog.lines, &pts, None, cap + 2, ctx) {
                        Ok(o) => o,
                        Err(mut v) => {
                            v.detail = format!("[break at boundary {k}] {}", v.detail);
                            return Some(v);
                        }
                    };
                    if p.breaks_fired > 0 && base.boundaries >= 5 {
                        ctx.nontrivial(prog_hash ^ fnv(format!("{k}|{:?}", insp).as_bytes()));
                    }
                    ctx.count("reach.singleton_placement");
                    let mut pp = p;
                    let mut bb = base.clone();
                    if base.capped || pp.capped {
                        pp.capped = true;
                        bb.capped = true;
                    }
                    if let Some(mut v) = compare_obs("C07", "baseline", &bb, "perturbed", &pp, false, true) {
                        v.detail = format!("[break at boundary {k}] {}", v.detail);
                        return Some(v);
                    }
                }
                None
            }
            Mode::AllSubsets(insp) => {
                let n = base.boundaries;
                if n == 0 || n > 10 || base.capped {
                    // too long for exhaustive subsets: fall back to every singleton
                    let c2 = Case { prog: c.prog.clone(), mode: Mode::AllSingletons(insp.clone()) };
                    return Self::execute(&c2, ctx);
                }
                ctx.count("reach.all_subsets_program");
                for mask in 1u32..(1u32 << n) {
                    let pts: Vec<BreakPoint> = (0..n)
                        .filter(|k| mask & (1 << k) != 0)
                        .map(|k| BreakPoint { at: k, inspections: insp.clone() })
                        .collect();
                    let extra = pts.len() as u32 * 2;
                    let p = match run_once(&c.prog, &c.prog.lines, &pts, None, cap + extra, ctx) {
                        Ok(o) => o,
                        Err(mut v) => {
                            v.detail = format!("[breaks at boundaries mask {mask:#b}] {}", v.detail);
                            return Some(v);
                        }
                    };
                    ctx.count("reach.subset_placement");
                    if p.breaks_fired >= 2 {
                        ctx.nontrivial(prog_hash ^ fnv(format!("subset{mask}|{:?}", insp).as_bytes()));
                    }
                    let mut pp = p;
                    let mut bb = base.clone();
                    if pp.capped {
                        pp.capped = true;
                        bb.capped = true;
                    }
                    if let Some(mut v) = compare_obs("C07", "baseline", &bb, "perturbed", &pp, false, true) {
                        v.detail = format!("[breaks at boundaries mask {mask:#b}] {}", v.detail);
                        return Some(v);
                    }
                }
                None
            }
            Mode::AssignAtStop(var, val) => {
                // the same assignment as an immediate line and as a statement
                let (target, e) = if let Some(open) = var.find('(') {
                    let idx: f64 = var[open + 1..var.len() - 1].parse().unwrap_or(0.0);
                    (LValue { name: var[..open].to_string(), index: Some(vec![Expr::Num(idx)]) }, Expr::Num(*val))
                } else if var.ends_with('$') {
                    (LValue { name: var.clone(), index: None }, Expr::Str(format!("s{}", val)))
                } else {
                    (LValue { name: var.clone(), index: None }, Expr::Num(*val))
                };
                let with = Stmt::Let { kw: false, target, e };
                let assign_text = print_stmt(&with);
                let p = match run_once(&c.prog, &c.prog.lines, &[], Some(&assign_text), cap, ctx) {
                    Ok(o) => o,
                    // the assignment itself failed at the prompt (e.g. a cell of an array that has another
                    // arity): at the prompt that is an error message, in a program it ends the run — the
                    // statement compares assignments that succeed
                    Err(v) if v.class == "C07/harness" && v.fingerprint.contains("assignment at STOP failed") => return None,
                    Err(v) => return Some(v),
                };
                let lines2: Vec<Line> = c
                    .prog
                    .lines
                    .iter()
                    .map(|l| Line {
                        num: l.num,
                        stmts: replace_stop(&l.stmts, &with),
                    })
                    .collect();
                let r = match run_once(&c.prog, &lines2, &[], None, cap, ctx) {
                    Ok(o) => o,
                    Err(v) => return Some(v),
                };
                if p.stops > 0 {
                    ctx.nontrivial(prog_hash ^ fnv(assign_text.as_bytes()));
                }
                // the STOP notices exist only in the perturbed run; the program text differs, so
                // only prints/requests/outcome and variables are comparable
                let mut pp = p.clone();
                pp.stream.retain(|r| !matches!(r, ObsRec::R(crate::sess::Rec::Break(_))));
                let mut rr = r.clone();
                if pp.capped || rr.capped {
                    pp.capped = true;
                    rr.capped = true;
                }
                // one STOP+CONT pair costs the same number of boundaries as the assignment, but cut runs may differ
                compare_obs("C07", "assign-at-stop", &pp, "assignment-in-place", &rr, false, false)
            }
        }
    }

    fn view(c: &Case) -> serde_json::Value {
        serde_json::json!({"session": crate::lockstep::prog_view(&c.prog), "mode": c.mode})
    }

    fn shrink(c: &Case) -> Vec<Case> {
        let mut out = vec![];
        match &c.mode {
            Mode::AllSingletons(insp) => {
                for k in 0..64u32 {
                    out.push(Case {
                        prog: c.prog.clone(),
                        mode: Mode::Breaks(vec![BreakPoint {
                            at: k,
                            inspections: insp.clone(),
                        }]),
                    });
                }
            }
            Mode::Breaks(points) => {
                for pts in shrink_vec(points) {
                    if !pts.is_empty() {
                        out.push(Case {
                            prog: c.prog.clone(),
                            mode: Mode::Breaks(pts),
                        });
                    }
                }
                for (i, p) in points.iter().enumerate() {
                    for ins in shrink_vec(&p.inspections) {
                        let mut pts = points.clone();
                        pts[i].inspections = ins;
                        out.push(Case {
                            prog: c.prog.clone(),
                            mode: Mode::Breaks(pts),
                        });
                    }
                    if p.at > 0 {
                        for at in [p.at / 2, p.at - 1] {
                            let mut pts = points.clone();
                            pts[i].at = at;
                            pts.sort_by_key(|b| b.at);
                            out.push(Case {
                                prog: c.prog.clone(),
                                mode: Mode::Breaks(pts),
                            });
                        }
                    }
                }
            }
            Mode::AssignAtStop(..) => {}
            Mode::AllSubsets(insp) => {
                // reproduce with explicit break sets: singletons and pairs
                for a in 0..10u32 {
                    out.push(Case { prog: c.prog.clone(), mode: Mode::Breaks(vec![BreakPoint { at: a, inspections: insp.clone() }]) });
                    for b in (a + 1)..10u32 {
                        out.push(Case {
                            prog: c.prog.clone(),
                            mode: Mode::Breaks(vec![BreakPoint { at: a, inspections: insp.clone() }, BreakPoint { at: b, inspections: insp.clone() }]),
                        });
                    }
                }
            }
        }
        for p in shrink_prog_case(&c.prog) {
            out.push(Case {
                prog: p,
                mode: c.mode.clone(),
            });
        }
        out
    }
}
