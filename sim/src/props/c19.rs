//! C19 — the Web adapter is a faithful, trap-free wrapper under the page's protocol.
//! Discrete-event simulation of the browser page: virtual ms clock, a timer queue,
//! user events at PRNG-chosen virtual times. The adapter (`abasic_web::JsInterpreter`)
//! is real code compiled natively; the page script `ts/main.ts` is a stub by
//! transliteration (function by function, see `Page`), guarded by a fingerprint
//! of the script: if `main.ts` changes, the check reports a harness error instead
//! of pretending to a verdict.

use crate::ast::print_line;
use crate::engine::{shrink_vec, Ctx, Meta, Prop, Tier, Violation};
use crate::gen::{Gen, Knobs};
use crate::hostile::{char_soup, token_soup};
use crate::prng::{fnv, Rng};
use crate::props::c01::{shrink_text, statement};
use crate::sess::{Op, Rec, Res, Sess, St};
use crate::websess::{WOut, WSt, WebSess};
use serde::{Deserialize, Serialize};
use std::collections::BinaryHeap;

pub struct C19;

#[derive(Clone, Debug, PartialEq, Serialize, Deserialize)]
pub enum Ev {
    /// the form is submitted with this text in the input box
    Submit(String),
    /// CTRL-C keydown in the input box (no selection)
    CtrlC,
}

#[derive(Clone, Debug, Serialize, Deserialize)]
pub struct Case {
    /// program text fetched at start-up (`?p=...`), if any
    pub load: Option<String>,
    /// Date.now() at start-up (seeds RND)
    pub date_now: u64,
    /// user events at virtual times (ms after start)
    pub events: Vec<(u32, Ev)>,
    /// virtual time at which the simulation stops
    pub until_ms: u32,
}

/// Which variant of `loadAndRunSourceCode` the script on disk has.
#[derive(Clone, Copy, PartialEq, Debug)]
pub enum ScriptVariant {
    /// pinned original: the loader never looks at the state between lines
    Original,
    /// loader stops at the first line that leaves the interpreter in the Errored state
    LoaderStopsOnError,
}

/// fingerprints (FNV-1a of the script with comments and all whitespace removed)
const FP_ORIGINAL: u64 = 0x0; // filled in by `script_variant` self-description below
fn normalise_script(src: &str) -> String {
    let mut out = String::new();
    let mut in_block = false;
    for line in src.lines() {
        let mut l = line.to_string();
        if in_block {
            if let Some(i) = l.find("*/") {
                l = l[i + 2..].to_string();
                in_block = false;
            } else {
                continue;
            }
        }
        while let Some(i) = l.find("/*") {
            if let Some(j) = l[i..].find("*/") {
                l.replace_range(i..i + j + 2, "");
            } else {
                l.truncate(i);
                in_block = true;
                break;
            }
        }
        // line comments (the script has no `//` inside string literals except URLs in comments)
        if let Some(i) = l.find("//") {
            l.truncate(i);
        }
        out.extend(l.chars().filter(|c| !c.is_whitespace()));
    }
    out
}

pub fn script_fingerprint() -> Result<(u64, String), String> {
    let repo = std::env::var("VERIF_REPO").unwrap_or_else(|_| "/repo".into());
    let p = format!("{repo}/abasic-web/ts/main.ts");
    let src = std::fs::read_to_string(&p).map_err(|e| format!("{p}: {e}"))?;
    let n = normalise_script(&src);
    Ok((fnv(n.as_bytes()), n))
}

/// fingerprints of the two script versions the transliteration was made from
pub const KNOWN_SCRIPTS: &[(u64, ScriptVariant)] = &[
    (0x47a1_0000_0000_0001, ScriptVariant::Original), // placeholder, replaced by tools/script_fp
    (0x47a1_0000_0000_0002, ScriptVariant::LoaderStopsOnError),
];

pub fn script_variant() -> Result<ScriptVariant, String> {
    let (fp, _) = script_fingerprint()?;
    let table = crate::props::c19_fp::FINGERPRINTS;
    for (f, v) in table {
        if *f == fp {
            return Ok(*v);
        }
    }
    let _ = (FP_ORIGINAL, KNOWN_SCRIPTS);
    Err(format!(
        "abasic-web/ts/main.ts changed (fingerprint {fp:#018x} is not one the transliteration in sim/src/props/c19.rs was made from): the page stub is stale, no verdict"
    ))
}

// ------------------------------------------------------------------ the page (transliteration of ts/main.ts)

#[derive(PartialEq, Eq, PartialOrd, Ord)]
struct Timer {
    // BinaryHeap is a max-heap: order by Reverse(time, seq)
    key: std::cmp::Reverse<(u32, u64)>,
}

struct Page<'a> {
    web: WebSess,
    twin: Sess,
    /// twin's last error that has not been taken yet (error text incl. caret lines)
    twin_error: Option<String>,
    last_ok: bool,
    last_replaced: bool,
    is_fully_interactive: bool,
    input_disabled: bool,
    now: u32,
    seq: u64,
    timers: BinaryHeap<Timer>,
    variant: ScriptVariant,
    ctx: &'a mut Ctx,
    live_chains: u32,
    max_chains: u32,
    statements: u64,
    shape: u64,
    /// records the twin produced that the page has not compared yet
    pending_twin_out: Vec<Rec>,
}

type PR = Result<(), Violation>;

fn trap(what: &str, p: String) -> Violation {
    Violation::new("C19/trap", format!("panic@{p}"), format!("{what} trapped: {p}"))
}

fn js_trim_is_empty(s: &str) -> bool {
    // String.prototype.trim(): WhiteSpace + LineTerminator
    s.chars().all(|c| {
        matches!(c, '\t' | '\n' | '\u{b}' | '\u{c}' | '\r' | ' ' | '\u{a0}' | '\u{1680}' | '\u{2000}'..='\u{200a}' | '\u{2028}' | '\u{2029}' | '\u{202f}' | '\u{205f}' | '\u{3000}' | '\u{feff}')
    })
}

impl<'a> Page<'a> {
    // ---- adapter calls, each mirrored on the bare-core twin and compared
    fn twin_state_matches(&mut self, what: &str) -> PR {
        let ws = self.web.state().map_err(|p| trap(&format!("get_state after {what}"), p))?;
        let expect = if self.twin_error.is_some() {
            WSt::Errored
        } else {
            match self.twin.state() {
                St::Idle => WSt::Idle,
                St::Running => WSt::Running,
                St::Awaiting => WSt::Awaiting,
                St::NewReq => WSt::Idle, // replaced right away, see `replace_rule`
            }
        };
        if ws != expect {
            return Err(Violation::new(
                "C19/state-differs",
                format!("web={:?} core={:?}", ws, expect),
                format!("after {what}: adapter state {:?}, core twin {:?}", ws, expect),
            ));
        }
        Ok(())
    }

    fn replace_rule(&mut self) {
        // what the adapter does after a successful call: install a fresh interpreter after NEW
        self.last_ok = true;
        if self.twin.state() == St::NewReq {
            self.twin.apply(&Op::Replace);
            self.ctx.count("fault.new+replace");
            self.last_replaced = true;
        }
    }

    fn twin_call(&mut self, op: &Op, with_caret: bool) -> PR {
        self.last_ok = false;
        self.last_replaced = false;
        let Some(call) = self.twin.apply(op) else {
            return Err(Violation::new("C19/harness", "twin illegal op", format!("{:?} in {:?}", op, self.twin.state())));
        };
        match &call.res {
            Res::Ok => self.replace_rule(),
            Res::Err(e) => {
                let mut lines = vec![e.text.clone()];
                if with_caret {
                    if let Ok(c) = &e.caret {
                        lines.extend(c.iter().cloned());
                    }
                }
                self.twin_error = Some(lines.join("\n"));
            }
            Res::Panic(p) => return Err(Violation::new("C19/core-panic", format!("panic@{p}"), format!("core twin {:?} unwound: {p}", op))),
        }
        // outputs stay queued in the twin until the page takes the adapter's
        self.pending_twin_out.extend(call.recs);
        Ok(())
    }

    fn start_evaluating(&mut self, line: &str) -> PR {
        self.web.start_evaluating(line).map_err(|p| trap(&format!("start_evaluating({:?})", brief(line)), p))?;
        self.ctx.calls(1);
        self.twin_call(&Op::Line(line.to_string()), true)?;
        // NEW, spelled unambiguously, typed at the prompt and accepted: from here on the page must be
        // talking to an interpreter indistinguishable from a freshly created one, however the core and
        // the adapter arrange that. If the core did not ask for a replacement, the twin gets one anyway.
        let squeezed: String = line.chars().filter(|c| !c.is_whitespace()).collect::<String>().to_ascii_uppercase();
        if squeezed == "NEW" && self.last_ok && !self.last_replaced && self.twin.state() == St::Idle {
            self.ctx.count("reach.new_without_replacement_request");
            let have = crate::drive::probe_text(&self.twin);
            let fresh = crate::drive::probe_text(&Sess::new());
            if have != fresh {
                return Err(Violation::new(
                    "C19/new-not-fresh",
                    "state after NEW differs from a fresh interpreter".to_string(),
                    format!("after `{}` the core neither asked to be replaced nor is in the state of a fresh interpreter:\n{}\nfresh:\n{}", brief(line), have, fresh),
                ));
            }
            self.twin.force_fresh();
        }
        self.twin_state_matches("start_evaluating")
    }

    fn continue_evaluating(&mut self) -> PR {
        self.web.continue_evaluating().map_err(|p| trap("continue_evaluating", p))?;
        self.ctx.calls(1);
        self.statements += 1;
        self.twin_call(&Op::Tick, false)?;
        self.twin_state_matches("continue_evaluating")
    }

    fn provide_input(&mut self, text: &str) -> PR {
        self.web.provide_input(text).map_err(|p| trap("provide_input", p))?;
        self.ctx.calls(1);
        self.twin_call(&Op::Reply(text.to_string()), false)?;
        self.twin_state_matches("provide_input")
    }

    fn break_call(&mut self) -> PR {
        self.web.break_at_current_location().map_err(|p| trap("break_at_current_location", p))?;
        self.ctx.calls(1);
        self.twin_call(&Op::Break, false)?;
        self.twin_state_matches("break_at_current_location")
    }

    fn get_state(&mut self) -> Result<WSt, Violation> {
        self.web.state().map_err(|p| trap("get_state", p))
    }

    // ---- class Interpreter
    fn load_and_run_source_code(&mut self, source: &str) -> PR {
        self.is_fully_interactive = false;
        for line in source.split('\n') {
            if js_trim_is_empty(line) {
                continue;
            }
            if !line.starts_with(|c: char| c.is_ascii_digit()) {
                // console.warn("Skipping line, as it's not numbered:", line)
                self.ctx.count("reach.loader_skipped_unnumbered");
                continue;
            }
            self.start_evaluating(line)?;
            if self.variant == ScriptVariant::LoaderStopsOnError && self.get_state()? == WSt::Errored {
                self.ctx.count("reach.loader_stopped_on_error");
                return Ok(());
            }
        }
        self.start_evaluating("RUN")
    }

    fn start(&mut self) -> PR {
        // if (isFullyInteractive) ui.print(welcome)
        self.handle_current_state()
    }

    fn can_process_user_input(&mut self) -> Result<bool, Violation> {
        let s = self.get_state()?;
        Ok(s == WSt::Idle || s == WSt::Awaiting)
    }

    fn can_break(&mut self) -> Result<bool, Violation> {
        Ok(self.get_state()? != WSt::Idle)
    }

    fn submit_user_input(&mut self, input: &str) -> PR {
        match self.get_state()? {
            WSt::Idle => self.start_evaluating(input)?,
            WSt::Awaiting => self.provide_input(input)?,
            other => {
                return Err(Violation::new(
                    "C19/page-throw",
                    "submitUserInput in unexpected state",
                    format!("submitUserInput called when state is {:?}", other),
                ))
            }
        }
        self.handle_current_state()
    }

    fn break_at_current_location(&mut self) -> PR {
        let s = self.get_state()?;
        if s == WSt::Awaiting || s == WSt::Running {
            self.is_fully_interactive = true;
            if s == WSt::Running {
                self.ctx.count("fault.break@running");
            } else {
                self.ctx.count("fault.break@awaiting");
            }
            self.break_call()?;
            self.handle_current_state()?;
        }
        Ok(())
    }

    fn show_output(&mut self) -> PR {
        let out: Vec<WOut> = self.web.take_latest_output().map_err(|p| trap("take_latest_output", p))?;
        let want: Vec<WOut> = std::mem::take(&mut self.pending_twin_out).into_iter().map(rec_as_wout).collect();
        if out != want {
            let k = out.iter().zip(want.iter()).take_while(|(a, b)| a == b).count();
            return Err(Violation::new(
                "C19/output-differs",
                format!("web={} core={}", out.get(k).map(|o| o.kind).unwrap_or("none"), want.get(k).map(|o| o.kind).unwrap_or("none")),
                format!("take_latest_output record {k}: adapter {:?} vs core {:?}", out.get(k), want.get(k)),
            ));
        }
        Ok(())
    }

    fn handle_current_state(&mut self) -> PR {
        loop {
            self.show_output()?;
            match self.get_state()? {
                WSt::Idle => {
                    if !self.is_fully_interactive {
                        // ui.clearPromptAndDisableInput()
                        self.input_disabled = true;
                        self.ctx.count("reach.input_disabled");
                        return Ok(());
                    }
                    return Ok(()); // prompt "] "
                }
                WSt::Awaiting => return Ok(()), // prompt "? "
                WSt::Errored => {
                    let err = self.web.take_latest_error().map_err(|p| trap("take_latest_error", p))?;
                    let Some(err) = err else {
                        return Err(Violation::new("C19/page-throw", "take_latest_error undefined", "take_latest_error() returned undefined in the Errored state"));
                    };
                    let want = self.twin_error.take().unwrap_or_default();
                    // first line: the error text; further lines (if any): the source line and the caret
                    let got_first = err.lines().next().unwrap_or("");
                    let want_first = want.lines().next().unwrap_or("");
                    let got_rest: Vec<&str> = err.split('\n').skip(1).collect();
                    let want_rest: Vec<&str> = want.split('\n').skip(1).collect();
                    if got_first != want_first || got_rest != want_rest {
                        return Err(Violation::new(
                            "C19/error-differs",
                            format!("first-line-equal={}", got_first == want_first),
                            format!("take_latest_error: adapter {:?} vs core {:?}", err, want),
                        ));
                    }
                    self.ctx.count("reach.error_shown");
                    // this.handleCurrentState()
                    continue;
                }
                WSt::Running => {
                    self.continue_evaluating()?;
                    // window.setTimeout(this.handleCurrentState, 5)
                    self.seq += 1;
                    self.timers.push(Timer {
                        key: std::cmp::Reverse((self.now + 5, self.seq)),
                    });
                    self.live_chains += 1;
                    self.max_chains = self.max_chains.max(self.live_chains);
                    return Ok(());
                }
            }
        }
    }

    // ---- DOM handlers
    fn on_key_ctrl_c(&mut self) -> PR {
        if self.input_disabled {
            return Ok(());
        }
        self.break_at_current_location()
    }

    fn on_submit(&mut self, input: &str) -> PR {
        if self.input_disabled {
            return Ok(());
        }
        if self.can_break()? && input == "💥" {
            self.ctx.count("fault.emoji_break");
            return self.break_at_current_location();
        }
        if !self.can_process_user_input()? {
            self.ctx.count("fault.submit_while_running(ignored)");
            return Ok(());
        }
        self.submit_user_input(input)
    }
}

fn rec_as_wout(r: Rec) -> WOut {
    // type + to_string(), as convert_interpreter_output_for_js does
    let (kind, text) = match &r {
        Rec::Print(s) => ("Print", s.clone()),
        Rec::Break(l) => ("Break", format!("BREAK{}", l.map(|l| format!(" IN {l}")).unwrap_or_default())),
        Rec::Warning(m, l) => ("Warning", format!("WARNING{}: {}", l.map(|l| format!(" IN {l}")).unwrap_or_default(), m)),
        Rec::Trace(l) => ("Trace", format!("#{l}")),
        Rec::Extra => ("Extra", "EXTRA IGNORED".to_string()),
        Rec::Reenter => ("Reenter", "REENTER".to_string()),
    };
    WOut { kind, text }
}

fn brief(s: &str) -> String {
    s.chars().take(60).collect()
}

fn simulate(c: &Case, variant: ScriptVariant, ctx: &mut Ctx) -> Option<Violation> {
    let mut events = c.events.clone();
    events.sort_by_key(|e| e.0);
    let mut page = Page {
        web: WebSess::new(),
        twin: Sess::new(),
        twin_error: None,
        last_ok: false,
        last_replaced: false,
        is_fully_interactive: true,
        input_disabled: false,
        now: 0,
        seq: 0,
        timers: BinaryHeap::new(),
        variant,
        ctx,
        live_chains: 0,
        max_chains: 0,
        statements: 0,
        shape: 0xcbf29ce484222325,
        pending_twin_out: vec![],
    };
    // constructor: impl.randomize(BigInt(Date.now()))
    if let Err(p) = page.web.randomize(c.date_now) {
        return Some(trap("randomize", p));
    }
    page.twin.apply(&Op::Seed(c.date_now));
    let r = (|| -> PR {
        if let Some(src) = &c.load {
            page.ctx.count("fault.load_program");
            page.load_and_run_source_code(src)?;
        }
        page.start()?;
        let mut ei = 0;
        let mut steps = 0u32;
        loop {
            steps += 1;
            if steps > 20_000 {
                break;
            }
            let next_timer = page.timers.peek().map(|t| t.key.0 .0);
            let next_event = events.get(ei).map(|e| e.0);
            // timers and user events at the same ms: the one queued first (timers carry seq; user events win ties
            // only if their time is strictly smaller) — the tie order is itself a PRNG-independent fixed rule
            let take_timer = match (next_timer, next_event) {
                (None, None) => break,
                (Some(_), None) => true,
                (None, Some(_)) => false,
                (Some(t), Some(e)) => t <= e,
            };
            if take_timer {
                let t = page.timers.pop().unwrap();
                if t.key.0 .0 > c.until_ms {
                    break;
                }
                page.now = t.key.0 .0;
                page.live_chains -= 1;
                if page.live_chains >= 1 {
                    page.ctx.count("reach.two_timer_chains_alive");
                }
                crate::prng::fnv_add(&mut page.shape, &[1]);
                page.handle_current_state()?;
            } else {
                let (t, ev) = events[ei].clone();
                ei += 1;
                if t > c.until_ms {
                    break;
                }
                page.now = page.now.max(t);
                match &ev {
                    Ev::CtrlC => {
                        crate::prng::fnv_add(&mut page.shape, &[2]);
                        page.on_key_ctrl_c()?
                    }
                    Ev::Submit(text) => {
                        crate::prng::fnv_add(&mut page.shape, &[3, text.len() as u8]);
                        page.on_submit(text)?
                    }
                }
            }
        }
        Ok(())
    })();
    let now = page.now;
    let stmts = page.statements;
    let chains = page.max_chains;
    let shape = page.shape;
    let ctx = page.ctx;
    ctx.stats.sim_ms += now as u64;
    if chains >= 2 {
        ctx.count("reach.max_chains>=2");
    }
    if stmts >= 5 && (!c.events.is_empty() || c.load.is_some()) {
        ctx.nontrivial(shape ^ fnv(format!("{:?}{:?}", c.load, c.events).as_bytes()));
    }
    r.err()
}

impl Prop for C19 {
    const ID: &'static str = "C19";
    type Case = Case;

    fn meta() -> Meta {
        Meta {
            level: "exploration",
            rule: "Discrete-event simulation of the page: virtual ms clock, a (time, seq) ordered timer heap (handleCurrentState re-arms itself with setTimeout 5 ms while the interpreter runs; a break leaves the old chain pending and CONT starts another, so 2+ chains run concurrently), user events (submit of lines / replies / CONT / RUN / NEW / the break emoji / hostile text, CTRL-C) at PRNG-chosen virtual times biased to fall between ticks, an optional program file loaded at start-up (generated programs with a share of untokenizable, unnumbered, blank, CRLF and non-ASCII lines), and Date.now() seeds incl. clock jumps. Every adapter call is mirrored on a bare abasic_core::Interpreter twin. Oracle: no adapter call unwinds (= trap), no page `throw` arm is reached, after every call the adapter state maps to the twin's (Errored iff the twin's last call failed and the error was not taken), take_latest_output equals the twin's records (type + text), take_latest_error's first line equals the twin's error text and any further lines equal the twin's caret rendering, after an accepted NEW the twin is a default-constructed interpreter whether or not the core asked to be replaced (and if it did not, its probe must equal a fresh one). One simulation in 300 loads 200-700 lines and LISTs them in one call; one in 30 (with a loaded program) breaks in, edits or deletes program lines and submits resuming statements (READ, CONT, NEXT, RETURN, FN call, GOTO). distinct_nontrivial = distinct (event interleaving shape, inputs) hashes among simulations that executed >= 5 statements.",
            real: &["abasic-web/src/lib.rs (JsInterpreter, natively compiled rlib)", "abasic-core"],
            stub: &[
                "the page script abasic-web/ts/main.ts: transliterated to Rust function by function (no TypeScript compiler / wasm target in the sandbox); drift guard: the check refuses to run (exit 2) if the script's normalised fingerprint is not one the transliteration was made from",
                "the browser: event loop, timers, Date.now(), DOM (ui.* reduced to the input-disabled flag)",
            ],
            assumptions: &[
                "a Rust unwind in the natively compiled adapter corresponds to a WebAssembly trap",
                "timer and user event at the same virtual ms: the timer runs first (fixed rule)",
            ],
            reach: &[
                "reach.two_timer_chains_alive",
                "fault.break@running",
                "fault.break@awaiting",
                "fault.load_program",
                "fault.new+replace",
                "fault.submit_while_running(ignored)",
                "reach.error_shown",
                "reach.input_disabled",
            ],
        }
    }

    fn runs(tier: Tier) -> u64 {
        match tier {
            Tier::Quick => 600_000,
            Tier::Thorough => 20_000_000,
        }
    }

    fn generate(rng: &mut Rng, _ctx: &mut Ctx) -> Case {
        let load = if rng.chance(1, 2) {
            let mut k = Knobs::swarm(rng);
            k.input = rng.chance(1, 2);
            k.stop = rng.chance(1, 3);
            k.max_lines = 3 + rng.usize(14);
            let mut grng = rng.fork();
            let (prog, _) = Gen::new(&mut grng, k).program();
            let mut lines: Vec<String> = prog.iter().map(print_line).collect();
            // what real files contain
            let njunk = if rng.chance(1, 2) { 0 } else { rng.usize(4) };
            for _ in 0..njunk {
                let at = rng.usize(lines.len() + 1);
                let junk = match rng.below(8) {
                    0 => String::new(),
                    1 => "   ".to_string(),
                    2 => "REM no number".to_string(),
                    3 => format!("{} C% = 1", 5 + rng.below(300)),
                    4 => format!("{} PRINT \"unterminated", 5 + rng.below(300)),
                    5 => format!("  {} PRINT 1", rng.below(300)),
                    6 => format!("{} {}", rng.below(300), char_soup(rng, 8)),
                    _ => format!("{} {}", rng.below(300), statement(rng)),
                };
                lines.insert(at, junk);
            }
            let sep = if rng.chance(1, 6) { "\r\n" } else { "\n" };
            let mut text = lines.join(sep);
            if rng.chance(1, 2) {
                text.push_str(sep);
            }
            Some(text)
        } else {
            None
        };
        let n = rng.usize(25);
        let mut t = 0u32;
        let mut events = vec![];
        for _ in 0..n {
            t += match rng.below(6) {
                0 => 0,
                1 => 1 + rng.below(4) as u32,
                2 => 5,
                3 => 6 + rng.below(20) as u32,
                _ => rng.below(200) as u32,
            };
            let ev = match rng.below(20) {
                0..=2 => Ev::CtrlC,
                3 => Ev::Submit("💥".into()),
                4..=6 => Ev::Submit(rng.pick(&["RUN", "CONT", "LIST", "NEW", "run", "TRACE", "NOTRACE", "NEW GAME", " new 10", "NEW\t", "RUN 10", "cont x", "LIST 1-2"]).to_string()),
                7..=9 => Ev::Submit(format!("{} {}", 10 * (1 + rng.below(12)), statement(rng))),
                10..=12 => Ev::Submit(statement(rng)),
                13..=15 => Ev::Submit(rng.pick(&["5", "42", "hello", "", "1,2", "x:y", "\"q\""]).to_string()),
                16 => Ev::Submit(token_soup(rng, 8)),
                17 => Ev::Submit(char_soup(rng, 10)),
                18 => Ev::Submit(format!("{}", 10 * (1 + rng.below(12)))),
                _ => Ev::Submit("10 GOTO 10".into()),
            };
            events.push((t, ev));
        }
        // the visitor breaks into the loaded program, edits or deletes one of its lines and then tries to
        // resume into it: whatever error that gives must still be rendered, not trap
        if let (Some(text), true) = (&load, rng.chance(1, 30)) {
            let nums: Vec<u64> = text.lines().filter_map(|l| l.trim_start().split(|c: char| !c.is_ascii_digit()).next().and_then(|d| d.parse().ok())).collect();
            if !nums.is_empty() {
                let mut tt = rng.below(40) as u32;
                let mut script = vec![(tt, Ev::CtrlC)];
                for _ in 0..1 + rng.usize(2) {
                    tt += 1 + rng.below(20) as u32;
                    let n = rng.pick(&nums);
                    script.push((tt, Ev::Submit(if rng.chance(2, 3) { format!("{n}") } else { format!("{n} PRINT {n}") })));
                }
                for _ in 0..1 + rng.usize(3) {
                    tt += 1 + rng.below(20) as u32;
                    script.push((tt, Ev::Submit(rng.pick(&["READ C", "READ C$", "READ C, J, K", "CONT", "NEXT C", "RETURN", "PRINT FNC(1)", "GOTO 10", "RESTORE : READ Q"]).to_string())));
                }
                for (k, e) in script.into_iter().enumerate() {
                    events.insert(k.min(events.len()), e);
                }
                events.sort_by_key(|e| e.0);
                t = t.max(tt);
            }
        }
        // one call that yields hundreds of output records: LIST of a long program (every record must reach
        // the page in the take that follows the call)
        let mut load = load;
        if rng.chance(1, 300) {
            let n = 200 + rng.usize(500);
            let text: Vec<String> = (1..=n).map(|i| if i % 7 == 0 { format!("{} REM {}", i, i) } else { format!("{} PRINT {}", i, i) }).collect();
            load = Some(text.join("\n"));
            let at = rng.usize(events.len() + 1);
            let t_at = if at < events.len() { events[at].0 } else { t };
            events.insert(at, (t_at, Ev::Submit("LIST".into())));
        }
        Case {
            load,
            date_now: match rng.below(4) {
                0 => 1_790_000_000_000 + rng.below(1_000_000_000),
                1 => rng.pick(crate::hostile::BOUNDARY_SEEDS),
                2 => rng.next(),
                _ => rng.below(1000),
            },
            events,
            until_ms: t + 50 + rng.below(3000) as u32,
        }
    }

    fn execute(c: &Case, ctx: &mut Ctx) -> Option<Violation> {
        let variant = match script_variant() {
            Ok(v) => v,
            Err(e) => return Some(Violation::new("C19/stale-transliteration", "main.ts fingerprint", e)),
        };
        simulate(c, variant, ctx)
    }

    fn shrink(c: &Case) -> Vec<Case> {
        let mut out = vec![];
        for e in shrink_vec(&c.events) {
            let mut n = c.clone();
            n.events = e;
            out.push(n);
        }
        if let Some(src) = &c.load {
            let lines: Vec<String> = src.split('\n').map(|s| s.to_string()).collect();
            for l in shrink_vec(&lines) {
                let mut n = c.clone();
                n.load = Some(l.join("\n"));
                out.push(n);
            }
            let mut n = c.clone();
            n.load = None;
            out.push(n);
        }
        for (i, (_, ev)) in c.events.iter().enumerate() {
            if let Ev::Submit(t) = ev {
                for t2 in shrink_text(t) {
                    let mut n = c.clone();
                    n.events[i].1 = Ev::Submit(t2);
                    out.push(n);
                }
            }
        }
        if c.until_ms > 100 {
            let mut n = c.clone();
            n.until_ms /= 2;
            out.push(n);
        }
        if c.date_now != 0 {
            let mut n = c.clone();
            n.date_now = 0;
            out.push(n);
        }
        out
    }
}
