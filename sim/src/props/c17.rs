//! C17 — tracing and warnings never change what a program does.
//! The same session is replayed under the four flag configurations (API fields,
//! and TRACE/NOTRACE commands at idle points); each is checked in lock-step
//! against the model (prints, requests, errors: configuration independent by
//! construction in the model), trace path and warning predicate against the
//! model, and the four final states against each other.

use crate::engine::{Ctx, Meta, Prop, Tier, Violation};
use crate::lockstep::*;
use crate::prng::Rng;
use crate::sess::{Op, Rec, St};
use crate::props::c03::{nontrivial_hash, reach_counts};

pub struct C17;

fn final_state(o: &LockOutcome) -> String {
    let mut p = o.sess.probe(true);
    p.token_reads = 0;
    format!("{:?}", p)
}

impl Prop for C17 {
    const ID: &'static str = "C17";
    type Case = ProgCase;

    fn meta() -> Meta {
        Meta {
            level: "exploration",
            rule: "A session (program with INPUT/STOP from the C03/C08 grammar, reply script, breaks, commands at STOP points) is executed four times on the real interpreter, once per on/off combination of tracing and warnings (fields, or the TRACE command), each time in lock-step with the reference model: non-trace/non-warning records, states and errors must equal the model's (hence each other's); Trace records with immediate repeats collapsed must equal the model's executed-line sequence; Warning records must equal the model's predicate (unassigned variable read / absent array touched) in order, warnings of a failing statement excluded; immediate lines must not be traced; after a run without TRACE/NOTRACE commands a fresh line that is jumped to is traced iff the host set tracing; after each run `PRINT Q8` and `Q8(2) = 5` typed at the prompt give exactly one warning iff warnings are on; the four final probe snapshots must be identical. distinct_nontrivial = distinct (program, ticks, ...) hashes among runs with >= 5 turns.",
            real: &["abasic-core Interpreter (trace emission in evaluate_statement, warn paths, TRACE/NOTRACE commands)"],
            stub: &["the host", "reference model sim/src/model.rs (trace path, warning predicate)"],
            assumptions: &[
                "order of warnings inside one statement is left-to-right evaluation order (the same order that decides which error a statement reports)",
                "warnings emitted by a statement that then fails are not compared",
                "warning line numbers are compared (a function body's warnings carry the definition's line, like its errors)",
            ],
            reach: &["reach.trace_compared", "reach.warning_seen", "fault.command_at_stop", "reach.four_states_equal"],
        }
    }

    fn runs(tier: Tier) -> u64 {
        match tier {
            Tier::Quick => 150_000,
            Tier::Thorough => 5_000_000,
        }
    }

    fn generate(rng: &mut Rng, ctx: &mut Ctx) -> ProgCase {
        let faults = rng.chance(1, 2);
        let rng_flag = rng.chance(1, 3);
        let mut c = crate::props::c03::gen_case_with(rng, ctx, true, true, faults, rng_flag);
        c.tracing = true;
        c.warnings = true;
        c.trace_via_command = rng.chance(1, 3);
        let n = rng.usize(4);
        for _ in 0..n {
            c.stop_cmds.push(rng.pick(&["TRACE", "NOTRACE", "PRINT 0", "NOTRACE", "TRACE"]).to_string());
        }
        if rng.chance(1, 4) {
            c.await_breaks.push(rng.below(3) as u32);
        }
        if rng.chance(1, 3) {
            let cmd = match rng.below(3) {
                0 => Some("TRACE".to_string()),
                1 => Some("PRINT 0".to_string()),
                _ => None,
            };
            c.reply_breaks.push((rng.below(3) as u32, cmd));
        }
        c
    }

    fn execute(c: &ProgCase, ctx: &mut Ctx) -> Option<Violation> {
        let mut finals = vec![];
        let mut turns: Vec<((bool, bool), u64, u64, bool)> = vec![];
        for (t, w) in [(false, false), (true, false), (false, true), (true, true)] {
            let mut cc = c.clone();
            cc.tracing = t;
            cc.warnings = w;
            let trace_cmds = cc.stop_cmds.iter().any(|x| x == "TRACE") || cc.reply_breaks.iter().any(|(_, c)| c.as_deref() == Some("TRACE"));
            let cmp = Compare {
                prop: "C17",
                trace: t || trace_cmds,
                warnings: w,
                reenter_probe: false,
            };
            match run_lockstep(&cc, cmp, ctx) {
                Ok(o) => {
                    if t {
                        ctx.count("reach.trace_compared");
                    }
                    if t && w {
                        if let Some(h) = nontrivial_hash(c, &o) {
                            ctx.nontrivial(h);
                        }
                        reach_counts(&o, ctx);
                    }
                    // tracing state at the end may differ by construction (commands); exclude flags: probe has none
                    finals.push(((t, w), final_state(&o), o.capped));
                    turns.push(((t, w), o.ticks, o.eval_calls, o.capped));
                    // the warning rule holds at the prompt as well: an expression read of a variable
                    // nothing ever assigned, and a touch of an array that does not exist yet
                    let capped = o.capped;
                    let mut s = o.sess;
                    if !capped && s.state() == St::Idle {
                        for (line, want_print) in [("PRINT Q8", Some("0\n")), ("Q8(2) = 5", None)] {
                            let Some(call) = s.apply(&Op::Line(line.to_string())) else { break };
                            ctx.calls(1);
                            if let Some(p) = call.panicked() {
                                return Some(Violation::new("C17/panic", format!("panic@{p}"), format!("`{line}` at the prompt unwound: {p}")));
                            }
                            let warns: Vec<&Rec> = call.recs.iter().filter(|r| matches!(r, Rec::Warning(..))).collect();
                            let prints: Vec<String> = call.recs.iter().filter_map(|r| if let Rec::Print(x) = r { Some(x.clone()) } else { None }).collect();
                            let traces = call.recs.iter().filter(|r| matches!(r, Rec::Trace(_))).count();
                            let ok_warn = if w { warns.len() == 1 && format!("{:?}", warns[0]).contains("Q8") } else { warns.is_empty() };
                            let ok_print = match want_print {
                                Some(p) => prints == vec![p.to_string()],
                                None => prints.is_empty(),
                            };
                            if !ok_warn || !ok_print || traces != 0 || call.err().is_some() {
                                return Some(Violation::new(
                                    "C17/immediate-mode-records",
                                    format!("warnings={} got {} warnings {} traces", w, warns.len(), traces),
                                    format!("[tracing={t} warnings={w}] `{line}` typed at the prompt after the run gave {:?} ({:?})", call.recs, call.res),
                                ));
                            }
                            ctx.count("reach.immediate_mode_warning_checked");
                        }
                        // whatever ended the run (an error inside a clause, END, a STOP), the tracing
                        // flag is still what the host set: a line executed now is traced iff tracing is on.
                        // (only when no TRACE / NOTRACE command was part of the session)
                        if !trace_cmds && !cc.stop_cmds.iter().any(|x| x == "NOTRACE") && !cc.trace_via_command {
                            let mut recs = vec![];
                            for l in ["99991 REM", "GOTO 99991", "99991"] {
                                for call in s.line_and_settle(l, 10) {
                                    recs.extend(call.recs);
                                }
                            }
                            let traced: Vec<u64> = recs.iter().filter_map(|r| if let Rec::Trace(n) = r { Some(*n) } else { None }).collect();
                            let want: Vec<u64> = if t { vec![99991] } else { vec![] };
                            let mut got = traced.clone();
                            got.dedup();
                            if got != want {
                                return Some(Violation::new(
                                    "C17/tracing-flag-changed",
                                    format!("tracing={} traced {:?}", t, got),
                                    format!("[tracing={t} warnings={w}] after the run, `GOTO 99991` onto a fresh line gave trace records {:?}; the host set tracing={t} and no TRACE/NOTRACE command was typed", traced),
                                ));
                            }
                            ctx.count("reach.tracing_flag_checked_after_run");
                        }
                    }
                }
                Err(mut v) => {
                    v.detail = format!("[tracing={t} warnings={w}] {}", v.detail);
                    return Some(v);
                }
            }
        }
        let base = &finals[0];
        for f in &finals[1..] {
            if f.1 != base.1 && !f.2 && !base.2 {
                return Some(Violation::new(
                    "C17/final-state-differs",
                    format!("config {:?} vs {:?}", f.0, base.0),
                    format!("final probe under {:?}:\n{}\nunder {:?}:\n{}", base.0, base.1, f.0, f.1),
                ));
            }
        }
        // the number of host calls a session needs is observable behaviour too
        let tb = turns[0];
        for t in &turns[1..] {
            if !t.3 && !tb.3 && (t.1 != tb.1 || t.2 != tb.2) {
                return Some(Violation::new(
                    "C17/turn-count-differs",
                    format!("config {:?} vs {:?}", t.0, tb.0),
                    format!("the same session took {} ticks / {} evaluating calls under {:?} but {} / {} under {:?}", tb.1, tb.2, tb.0, t.1, t.2, t.0),
                ));
            }
        }
        ctx.count("reach.four_states_equal");
        None
    }

    fn view(c: &ProgCase) -> serde_json::Value {
        prog_view(c)
    }

    fn shrink(c: &ProgCase) -> Vec<ProgCase> {
        shrink_prog_case(c)
    }
}
