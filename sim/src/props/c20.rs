//! C20 — the language server survives any document and reports in-bounds positions.
//! The real `abasic-lsp` binary (built from /repo without the verification cfg) is
//! spoken to over its stdio transport by a simulated editor; an in-process call of
//! the same tree's analyzer is the oracle for the diagnostics.

use crate::ast::print_line;
use crate::engine::{shrink_vec, verif_root, Ctx, Meta, Prop, Tier, Violation};
use crate::gen::{Gen, Knobs};
use crate::hostile::{char_soup, nested, token_soup, NEST_KINDS};
use crate::prng::{fnv, Rng};
use crate::props::c01::{shrink_text, statement};
use crate::sess::guarded;
use abasic_core::{DiagnosticMessage, SourceFileAnalyzer};
use serde::{Deserialize, Serialize};
use serde_json::{json, Value};
use std::io::{BufRead, BufReader, Read, Write};
use std::process::{Child, ChildStdin, Command, Stdio};
use std::sync::mpsc::{channel, Receiver, RecvTimeoutError};
use std::time::Duration;

pub struct C20;

#[derive(Clone, Debug, PartialEq, Serialize, Deserialize)]
pub enum Msg {
    Open(u8, String),
    Change(u8, String),
    /// didChange with an empty contentChanges list: no reply expected
    ChangeEmpty(u8),
    /// didChange carrying several full-text changes: the last one is the document
    ChangeMulti(u8, Vec<String>),
    Tokens(u8),
    UnknownNotification,
    UnknownRequest,
    /// burst of didChange for one URI sent without reading in between
    Pipeline(u8, Vec<String>),
}

#[derive(Clone, Debug, Serialize, Deserialize)]
pub struct Case {
    pub msgs: Vec<Msg>,
    /// which client the simulated editor pretends to be (capabilities sent with initialize)
    #[serde(default)]
    pub caps: u8,
}

fn client_capabilities(caps: u8) -> Value {
    match caps {
        0 => json!({}),
        1 => json!({"general": {"positionEncodings": ["utf-16"]}}),
        // editors that *offer* other encodings: unless the server's reply announces one of them,
        // positions stay UTF-16
        2 => json!({"general": {"positionEncodings": ["utf-8", "utf-16"]}}),
        3 => json!({"general": {"positionEncodings": ["utf-32", "utf-8", "utf-16"]}}),
        _ => json!({
            "general": {"positionEncodings": ["utf-16"], "staleRequestSupport": {"cancel": true, "retryOnContentModified": []}},
            "textDocument": {
                "synchronization": {"dynamicRegistration": true, "willSave": true, "didSave": true},
                "publishDiagnostics": {"relatedInformation": true, "versionSupport": false, "tagSupport": {"valueSet": [1, 2]}},
                "semanticTokens": {"dynamicRegistration": true, "requests": {"range": true, "full": {"delta": true}}, "tokenTypes": ["keyword", "variable", "number", "string", "comment", "operator"], "tokenModifiers": [], "formats": ["relative"]}
            },
            "window": {"workDoneProgress": true}
        }),
    }
}

fn uri(k: u8) -> String {
    // documents 3.. share their *path* with documents 0.. (an editor's diff view opens the base of
    // a working copy under another scheme): they are different documents all the same
    match k {
        0..=2 => format!("file:///doc{}.bas", k),
        3..=5 => format!("git:/doc{}.bas?ref=HEAD", k - 3),
        _ => format!("untitled:/doc{}.bas", k % 3),
    }
}

struct Server {
    child: Child,
    stdin: ChildStdin,
    rx: Receiver<Result<Value, String>>,
    next_id: i64,
    legend_len: usize,
    announced_encoding: Option<String>,
}

fn lsp_bin() -> String {
    std::env::var("VERIF_LSP_BIN").unwrap_or_else(|_| verif_root().join("target/repo/release/abasic-lsp").to_string_lossy().to_string())
}

impl Server {
    fn start(caps: u8) -> Result<Server, String> {
        let mut child = Command::new(lsp_bin())
            .stdin(Stdio::piped())
            .stdout(Stdio::piped())
            .stderr(Stdio::null())
            .env("RUST_BACKTRACE", "0")
            .spawn()
            .map_err(|e| format!("cannot start {}: {e}", lsp_bin()))?;
        let stdin = child.stdin.take().unwrap();
        let stdout = child.stdout.take().unwrap();
        let (tx, rx) = channel();
        std::thread::spawn(move || {
            let mut r = BufReader::new(stdout);
            loop {
                let mut len: Option<usize> = None;
                loop {
                    let mut line = String::new();
                    match r.read_line(&mut line) {
                        Ok(0) => {
                            let _ = tx.send(Err("EOF on server stdout".into()));
                            return;
                        }
                        Ok(_) => {}
                        Err(e) => {
                            let _ = tx.send(Err(format!("read error: {e}")));
                            return;
                        }
                    }
                    let l = line.trim_end();
                    if l.is_empty() {
                        break;
                    }
                    if let Some(v) = l.strip_prefix("Content-Length:") {
                        len = v.trim().parse().ok();
                    }
                }
                let Some(n) = len else {
                    let _ = tx.send(Err("frame without Content-Length".into()));
                    return;
                };
                let mut buf = vec![0u8; n];
                if let Err(e) = r.read_exact(&mut buf) {
                    let _ = tx.send(Err(format!("short frame: {e}")));
                    return;
                }
                match serde_json::from_slice::<Value>(&buf) {
                    Ok(v) => {
                        if tx.send(Ok(v)).is_err() {
                            return;
                        }
                    }
                    Err(e) => {
                        let _ = tx.send(Err(format!("frame is not JSON: {e}")));
                        return;
                    }
                }
            }
        });
        let mut s = Server {
            child,
            stdin,
            rx,
            next_id: 1,
            legend_len: 0,
            announced_encoding: None,
        };
        // initialize / initialized
        let id = s.next_id;
        s.next_id += 1;
        s.send(&json!({"jsonrpc":"2.0","id":id,"method":"initialize","params":{"processId":null,"rootUri":null,"capabilities":client_capabilities(caps)}}))?;
        let resp = s.recv()?;
        s.announced_encoding = resp["result"]["capabilities"]["positionEncoding"].as_str().map(|x| x.to_string());
        s.legend_len = resp["result"]["capabilities"]["semanticTokensProvider"]["legend"]["tokenTypes"]
            .as_array()
            .map(|a| a.len())
            .ok_or_else(|| format!("initialize reply without a legend: {resp}"))?;
        s.send(&json!({"jsonrpc":"2.0","method":"initialized","params":{}}))?;
        Ok(s)
    }

    fn send(&mut self, v: &Value) -> Result<(), String> {
        let body = serde_json::to_vec(v).unwrap();
        let head = format!("Content-Length: {}\r\n\r\n", body.len());
        self.stdin.write_all(head.as_bytes()).map_err(|e| format!("write: {e}"))?;
        self.stdin.write_all(&body).map_err(|e| format!("write: {e}"))?;
        self.stdin.flush().map_err(|e| format!("flush: {e}"))
    }

    fn recv(&mut self) -> Result<Value, String> {
        match self.rx.recv_timeout(Duration::from_secs(20)) {
            Ok(Ok(v)) => Ok(v),
            Ok(Err(e)) => Err(e),
            Err(RecvTimeoutError::Timeout) => Err("no reply within 20 s".into()),
            Err(RecvTimeoutError::Disconnected) => Err("reader gone".into()),
        }
    }

    fn exit_status(&mut self) -> String {
        std::thread::sleep(Duration::from_millis(20));
        match self.child.try_wait() {
            Ok(Some(st)) => format!("{st}"),
            Ok(None) => "still running".into(),
            Err(e) => format!("{e}"),
        }
    }
}

impl Drop for Server {
    fn drop(&mut self) {
        let _ = self.child.kill();
        let _ = self.child.wait();
    }
}

fn utf16_len(s: &str) -> usize {
    s.chars().map(|c| c.len_utf16()).sum()
}

fn byte_to_utf16(line: &str, byte: usize) -> Option<usize> {
    if byte > line.len() || !line.is_char_boundary(byte) {
        return None;
    }
    if line.is_ascii() {
        return Some(byte);
    }
    Some(utf16_len(&line[..byte]))
}

/// byte offset -> UTF-16 column for one line, linear to build, O(1) to query
struct Utf16Map {
    ascii: bool,
    len: usize,
    cols: Vec<usize>,
}

impl Utf16Map {
    fn new(line: &str) -> Utf16Map {
        if line.is_ascii() {
            return Utf16Map { ascii: true, len: line.len(), cols: vec![] };
        }
        let mut cols = vec![usize::MAX; line.len() + 1];
        let mut col = 0;
        for (i, c) in line.char_indices() {
            cols[i] = col;
            col += c.len_utf16();
        }
        cols[line.len()] = col;
        Utf16Map { ascii: false, len: line.len(), cols }
    }
    fn get(&self, byte: usize) -> Option<usize> {
        if byte > self.len {
            return None;
        }
        if self.ascii {
            return Some(byte);
        }
        match self.cols[byte] {
            usize::MAX => None,
            c => Some(c),
        }
    }
}

/// what the analyzer says about `text`, computed in-process on the same tree
struct Expect {
    /// (severity, message, file line, exact utf16 range if both offsets fall on char boundaries)
    diags: Vec<(u64, String, usize, Option<(usize, usize)>)>,
    /// (line, utf16 start, utf16 length) of every token the analyzer reports, in order
    tokens: Vec<(usize, usize, usize)>,
}

fn analyse(text: &str) -> Result<Expect, String> {
    let t = text.to_string();
    guarded(move || {
        let a = SourceFileAnalyzer::analyze(t);
        let lines = a.source_file_lines().clone();
        let map = a.source_file_map();
        let mut diags = vec![];
        for m in a.messages() {
            let (sev, msg, line) = match m {
                DiagnosticMessage::Warning(l, _, s) => (2u64, s.clone(), *l),
                DiagnosticMessage::Error(l, e) => (1u64, e.to_string().lines().next().unwrap_or("").to_string(), *l),
            };
            let exact = map.map_to_source(m).and_then(|(l, r)| {
                let lt = lines.get(l)?;
                Some((byte_to_utf16(lt, r.start)?, byte_to_utf16(lt, r.end)?))
            });
            diags.push((sev, msg, line, exact));
        }
        let mut tokens = vec![];
        for (li, line) in a.token_types().iter().enumerate() {
            let lt = lines.get(li).map(|s| s.as_str()).unwrap_or("");
            let map = Utf16Map::new(lt);
            for (_ty, r) in line {
                if let (Some(s16), Some(e16)) = (map.get(r.start), map.get(r.end)) {
                    tokens.push((li, s16, e16 - s16));
                } else {
                    // a range that splits a character has no exact UTF-16 image: not compared
                    tokens.push((li, usize::MAX, usize::MAX));
                }
            }
        }
        Expect { diags, tokens }
    })
}

fn check_diagnostics(text: &str, note: &Value, want_uri: &str, ctx: &mut Ctx) -> Option<Violation> {
    let v = |class: &str, fp: String, detail: String| Some(Violation::new(&format!("C20/{class}"), fp, detail));
    if note["method"] != "textDocument/publishDiagnostics" || note["params"]["uri"] != want_uri {
        return v("wrong-reply", format!("{}", note["method"]), format!("expected publishDiagnostics for {want_uri}, got {}", brief(&note.to_string())));
    }
    let lines: Vec<&str> = text.split('\n').collect();
    let empty = vec![];
    let got = note["params"]["diagnostics"].as_array().unwrap_or(&empty);
    let mut got_set: Vec<(u64, String, usize, (usize, usize))> = vec![];
    for d in got {
        let sl = d["range"]["start"]["line"].as_u64().unwrap_or(u64::MAX) as usize;
        let el = d["range"]["end"]["line"].as_u64().unwrap_or(u64::MAX) as usize;
        let sc = d["range"]["start"]["character"].as_u64().unwrap_or(u64::MAX) as usize;
        let ec = d["range"]["end"]["character"].as_u64().unwrap_or(u64::MAX) as usize;
        let msg = d["message"].as_str().unwrap_or("").to_string();
        if sl >= lines.len() || el != sl {
            return v("range-out-of-document", "line".into(), format!("diagnostic {:?} on line {sl}..{el} of a {}-line document", msg, lines.len()));
        }
        let ll = utf16_len(lines[sl]);
        if !(sc <= ec && ec <= ll) {
            return v(
                "range-out-of-line",
                format!("utf16 {}", if lines[sl].is_ascii() { "ascii line" } else { "non-ascii line" }),
                format!("diagnostic {:?}: columns {sc}..{ec} on line {sl} which is {ll} UTF-16 units long: {:?}", msg, lines[sl]),
            );
        }
        got_set.push((d["severity"].as_u64().unwrap_or(0), msg.lines().next().unwrap_or("").to_string(), sl, (sc, ec)));
    }
    let want = match analyse(text) {
        Ok(w) => w,
        Err(p) => return v("analyzer-panic", format!("panic@{p}"), format!("in-process analysis of the document unwound: {p}")),
    };
    let mut a: Vec<(u64, String, usize)> = got_set.iter().map(|g| (g.0, g.1.clone(), g.2)).collect();
    let mut b: Vec<(u64, String, usize)> = want.diags.iter().map(|w| (w.0, w.1.clone(), w.2)).collect();
    a.sort();
    b.sort();
    if a != b {
        return v(
            "diagnostics-differ",
            format!("server {} analyzer {}", a.len(), b.len()),
            format!("server reported {:?}, the analyzer says {:?} for {:?}", a, b, brief(text)),
        );
    }
    // exact ranges where they have a UTF-16 image
    for w in &want.diags {
        if let Some(r) = w.3 {
            let ok = got_set.iter().any(|g| g.0 == w.0 && g.1 == w.1 && g.2 == w.2 && g.3 == r);
            if !ok {
                return v(
                    "range-differs",
                    format!("utf16 {}", if lines.get(w.2).map(|l| l.is_ascii()).unwrap_or(true) { "ascii line" } else { "non-ascii line" }),
                    format!("diagnostic {:?} on line {}: analyzer range in UTF-16 is {:?}, server sent {:?}", w.1, w.2, r, got_set.iter().filter(|g| g.1 == w.1 && g.2 == w.2).map(|g| g.3).collect::<Vec<_>>()),
                );
            }
        }
    }
    if !got_set.is_empty() {
        ctx.count("reach.diagnostics_compared");
    }
    if !text.is_ascii() {
        ctx.count("reach.non_ascii_document");
    }
    None
}

fn check_tokens(text: &str, resp: &Value, legend: usize, ctx: &mut Ctx) -> Option<Violation> {
    let v = |class: &str, fp: String, detail: String| Some(Violation::new(&format!("C20/{class}"), fp, detail));
    let Some(data) = resp["result"]["data"].as_array() else {
        return v("wrong-reply", "no token data".into(), format!("semanticTokens reply: {}", brief(&resp.to_string())));
    };
    if data.len() % 5 != 0 {
        return v("tokens-malformed", "length".into(), format!("{} integers", data.len()));
    }
    let lines: Vec<&str> = text.split('\n').collect();
    let lens: Vec<usize> = lines.iter().map(|l| utf16_len(l)).collect();
    let mut line = 0usize;
    let mut start = 0usize;
    let mut prev_end: Option<(usize, usize)> = None;
    for (i, t) in data.chunks(5).enumerate() {
        let n = |k: usize| t[k].as_u64().unwrap_or(u64::MAX) as usize;
        let (dl, ds, len, ty) = (n(0), n(1), n(2), n(3));
        if dl > 0 {
            line += dl;
            start = ds;
        } else {
            start += ds;
        }
        if line >= lines.len() {
            return v("token-out-of-document", "line".into(), format!("token {i} on line {line} of a {}-line document", lines.len()));
        }
        let ll = lens[line];
        if start + len > ll {
            return v(
                "token-out-of-line",
                format!("utf16 {}", if lines[line].is_ascii() { "ascii line" } else { "non-ascii line" }),
                format!("token {i}: columns {start}..{} on line {line} which is {ll} UTF-16 units long: {:?}", start + len, brief(lines[line])),
            );
        }
        if let Some((pl, pe)) = prev_end {
            if pl == line && start < pe {
                return v("tokens-overlap", "order".into(), format!("token {i} starts at {start} on line {line}, previous ended at {pe}"));
            }
        }
        if ty >= legend {
            return v("token-type-outside-legend", format!("{ty}"), format!("token {i} has type {ty}, legend has {legend} entries"));
        }
        prev_end = Some((line, start + len));
    }
    // the tokens are those of THIS document: positions equal the analyzer's for the latest text
    if let Ok(want) = analyse(text) {
        let got: Vec<(usize, usize, usize)> = {
            let mut v = vec![];
            let (mut line, mut start) = (0usize, 0usize);
            for t in data.chunks(5) {
                let n = |k: usize| t[k].as_u64().unwrap_or(0) as usize;
                if n(0) > 0 {
                    line += n(0);
                    start = n(1);
                } else {
                    start += n(1);
                }
                v.push((line, start, n(2)));
            }
            v
        };
        // (the statement does not fix which tokens are reported, only that they belong to this
        // document: every reported token must be one the analyzer finds in the latest text)
        let known: std::collections::HashSet<(usize, usize, usize)> = want.tokens.iter().copied().collect();
        let inexact_lines: std::collections::HashSet<usize> = want.tokens.iter().filter(|w| w.1 == usize::MAX).map(|w| w.0).collect();
        if let Some(k) = got.iter().position(|g| !known.contains(g) && !inexact_lines.contains(&g.0)) {
            return v(
                "tokens-differ",
                format!("server {} analyzer {}", got.len(), want.tokens.len()),
                format!("semantic token {k} {:?} is not a token of the latest text {:?} (analyzer tokens on that line: {:?})", got[k], brief(text), want.tokens.iter().filter(|w| w.0 == got[k].0).take(8).collect::<Vec<_>>()),
            );
        }
        ctx.count("reach.tokens_compared_exactly");
    }
    if !data.is_empty() {
        ctx.count("reach.tokens_decoded");
    }
    None
}

fn brief(s: &str) -> String {
    let t: String = s.chars().take(240).collect();
    if t.len() < s.len() {
        format!("{t}…")
    } else {
        t
    }
}

fn did_open(u: &str, text: &str) -> Value {
    json!({"jsonrpc":"2.0","method":"textDocument/didOpen","params":{"textDocument":{"uri":u,"languageId":"basic","version":1,"text":text}}})
}
fn did_change(u: &str, text: &str) -> Value {
    json!({"jsonrpc":"2.0","method":"textDocument/didChange","params":{"textDocument":{"uri":u,"version":2},"contentChanges":[{"text":text}]}})
}

fn session(c: &Case, ctx: &mut Ctx) -> Option<Violation> {
    let v = |class: &str, fp: String, detail: String| Some(Violation::new(&format!("C20/{class}"), fp, detail));
    let mut s = match Server::start(c.caps) {
        Ok(s) => s,
        Err(e) => return v("harness", "server start".into(), e),
    };
    if s.announced_encoding.as_deref().map(|e| e != "utf-16").unwrap_or(false) {
        // a server that negotiates another encoding in its reply is within the protocol; this harness
        // measures UTF-16 only and gives no verdict on such a session
        ctx.count("reach.server_announced_another_position_encoding");
        return None;
    }
    ctx.count(&format!("reach.client_capabilities.{}", c.caps));
    let mut docs: std::collections::HashMap<u8, String> = std::collections::HashMap::new();
    let died = |s: &mut Server, what: &str, text: Option<&str>, e: String| -> Option<Violation> {
        let st = s.exit_status();
        // why: ask the same tree's analyzer in-process
        let cause = text.and_then(|t| analyse(t).err());
        Some(Violation::new(
            "C20/server-died",
            match &cause {
                Some(p) => format!("panic@{p}"),
                None => format!("{e} ({st})"),
            },
            format!("after {what}: {e}; server {st}; in-process analysis: {:?}; document {:?}", cause, text.map(brief)),
        ))
    };
    for (i, m) in c.msgs.iter().enumerate() {
        ctx.calls(1);
        match m {
            Msg::Open(k, text) | Msg::Change(k, text) => {
                let u = uri(*k);
                let is_open = matches!(m, Msg::Open(..));
                if !is_open && !docs.contains_key(k) {
                    ctx.count("fault.change_before_open");
                }
                if is_open && docs.contains_key(k) {
                    ctx.count("fault.reopen");
                }
                if text.contains("\r\n") {
                    ctx.count("fault.crlf");
                }
                let msg = if is_open { did_open(&u, text) } else { did_change(&u, text) };
                if let Err(e) = s.send(&msg) {
                    return died(&mut s, &format!("message {i}"), Some(text), e);
                }
                let note = match s.recv() {
                    Ok(n) => n,
                    Err(e) => return died(&mut s, &format!("message {i} ({})", if is_open { "didOpen" } else { "didChange" }), Some(text), e),
                };
                docs.insert(*k, text.clone());
                if let Some(x) = check_diagnostics(text, &note, &u, ctx) {
                    return Some(x);
                }
            }
            Msg::ChangeMulti(k, texts) => {
                let u = uri(*k);
                let Some(last) = texts.last() else { continue };
                let changes: Vec<Value> = texts.iter().map(|t| json!({"text": t})).collect();
                let msg = json!({"jsonrpc":"2.0","method":"textDocument/didChange","params":{"textDocument":{"uri":u,"version":4},"contentChanges":changes}});
                ctx.count("fault.batched_changes");
                if let Err(e) = s.send(&msg) {
                    return died(&mut s, &format!("message {i}"), Some(last), e);
                }
                let note = match s.recv() {
                    Ok(n) => n,
                    Err(e) => return died(&mut s, &format!("message {i} (didChange x{})", texts.len()), Some(last), e),
                };
                docs.insert(*k, last.clone());
                if let Some(x) = check_diagnostics(last, &note, &u, ctx) {
                    return Some(x);
                }
            }
            Msg::ChangeEmpty(k) => {
                let u = uri(*k);
                let msg = json!({"jsonrpc":"2.0","method":"textDocument/didChange","params":{"textDocument":{"uri":u,"version":3},"contentChanges":[]}});
                if let Err(e) = s.send(&msg) {
                    return died(&mut s, &format!("message {i}"), None, e);
                }
                ctx.count("fault.empty_change_list");
            }
            Msg::UnknownNotification => {
                let msg = json!({"jsonrpc":"2.0","method":"$/whoKnows","params":{"x":1}});
                if let Err(e) = s.send(&msg) {
                    return died(&mut s, &format!("message {i}"), None, e);
                }
                ctx.count("fault.unknown_method");
            }
            Msg::UnknownRequest => {
                // the server does not answer requests it does not know; nothing to read
                let id = s.next_id;
                s.next_id += 1;
                let msg = json!({"jsonrpc":"2.0","id":id,"method":"textDocument/hover","params":{"textDocument":{"uri":uri(0)},"position":{"line":0,"character":0}}});
                if let Err(e) = s.send(&msg) {
                    return died(&mut s, &format!("message {i}"), None, e);
                }
                ctx.count("fault.unknown_method");
            }
            Msg::Tokens(k) => {
                let u = uri(*k);
                let id = s.next_id;
                s.next_id += 1;
                let msg = json!({"jsonrpc":"2.0","id":id,"method":"textDocument/semanticTokens/full","params":{"textDocument":{"uri":u}}});
                if let Err(e) = s.send(&msg) {
                    return died(&mut s, &format!("message {i}"), docs.get(k).map(|s| s.as_str()), e);
                }
                let resp = match s.recv() {
                    Ok(n) => n,
                    Err(e) => return died(&mut s, &format!("message {i} (semanticTokens)"), docs.get(k).map(|s| s.as_str()), e),
                };
                if resp["id"] != json!(id) {
                    return v("wrong-reply", "id".into(), format!("request {id} answered by {}", brief(&resp.to_string())));
                }
                match docs.get(k) {
                    Some(text) => {
                        let legend = s.legend_len;
                        if let Some(x) = check_tokens(text, &resp, legend, ctx) {
                            return Some(x);
                        }
                    }
                    None => {
                        ctx.count("fault.tokens_before_open");
                        if resp.get("error").is_none() {
                            return v("wrong-reply", "tokens for unopened uri".into(), brief(&resp.to_string()));
                        }
                    }
                }
            }
            Msg::Pipeline(k, texts) => {
                let u = uri(*k);
                ctx.count("fault.pipelined_changes");
                for t in texts {
                    if let Err(e) = s.send(&did_change(&u, t)) {
                        return died(&mut s, &format!("message {i} (pipeline)"), Some(t), e);
                    }
                }
                for t in texts {
                    let note = match s.recv() {
                        Ok(n) => n,
                        Err(e) => return died(&mut s, &format!("message {i} (pipeline of {})", texts.len()), Some(t), e),
                    };
                    if let Some(x) = check_diagnostics(t, &note, &u, ctx) {
                        return Some(x);
                    }
                }
                if let Some(last) = texts.last() {
                    docs.insert(*k, last.clone());
                }
            }
        }
    }
    // orderly shutdown
    let id = s.next_id;
    if s.send(&json!({"jsonrpc":"2.0","id":id,"method":"shutdown","params":null})).is_ok() {
        match s.recv() {
            Ok(r) if r["id"] == json!(id) => {
                let _ = s.send(&json!({"jsonrpc":"2.0","method":"exit","params":null}));
                ctx.count("reach.clean_shutdown");
            }
            Ok(other) => return v("wrong-reply", "shutdown".into(), format!("shutdown answered by {}", brief(&other.to_string()))),
            Err(e) => return died(&mut s, "shutdown", None, e),
        }
    }
    if docs.len() >= 1 && c.msgs.len() >= 3 {
        ctx.nontrivial(fnv(format!("{:?}", c.msgs).as_bytes()));
    }
    None
}

// ------------------------------------------------------------------ the editing simulator

fn edit_text(rng: &mut Rng, text: &str) -> String {
    let mut lines: Vec<String> = text.split('\n').map(|s| s.to_string()).collect();
    if lines.is_empty() {
        lines.push(String::new());
    }
    let li = rng.usize(lines.len());
    match rng.below(14) {
        0 => {
            // insert a character
            let l = &mut lines[li];
            let chars: Vec<char> = l.chars().collect();
            let at = rng.usize(chars.len() + 1);
            let ins = rng.pick(&["\"", "(", ")", " ", "1", "A", "é", "日", "💥", "%", ":", ",", "=", "\t", "\u{feff}"]);
            *l = chars[..at].iter().collect::<String>() + ins + &chars[at..].iter().collect::<String>();
        }
        1 => {
            // delete a character
            let l = &mut lines[li];
            let mut chars: Vec<char> = l.chars().collect();
            if !chars.is_empty() {
                let at = rng.usize(chars.len());
                chars.remove(at);
            }
            *l = chars.into_iter().collect();
        }
        2 => {
            // duplicate a line (same line number twice)
            let l = lines[li].clone();
            lines.insert(li, l);
        }
        3 => {
            // empty a line to its bare number
            let l = lines[li].clone();
            let num: String = l.chars().take_while(|c| c.is_ascii_digit()).collect();
            lines[li] = num;
        }
        4 => {
            // duplicate with an emptied / broken second definition
            let l = lines[li].clone();
            let num: String = l.chars().take_while(|c| c.is_ascii_digit()).collect();
            let second = match rng.below(3) {
                0 => num.clone(),
                1 => format!("{} PRINT \"", num),
                _ => format!("{} %", num),
            };
            lines.insert(li + 1, second);
        }
        5 => {
            // break a string
            if let Some(i) = lines[li].rfind('"') {
                lines[li].remove(i);
            }
        }
        6 => lines[li].push_str(rng.pick(&[" REM é日本", " : PRINT \"ü\" + 1", "💥", " + \"𝄞\""])),
        7 => lines.insert(li, String::new()),
        8 => lines.insert(li, rng.pick(&["no number here", "   ", "REM", "\t10"]).to_string()),
        9 => {
            lines.remove(li);
        }
        10 => lines.insert(li, format!("{} {}", rng.below(400), statement(rng))),
        11 => lines.insert(li, format!("{} {}", rng.below(400), token_soup(rng, 8))),
        12 => lines.insert(li, format!("{} {}", rng.below(400), char_soup(rng, 10).replace('\n', " "))),
        _ => {
            // a non-ASCII string literal in front of an error: columns must be UTF-16
            lines.insert(li, format!("{} PRINT \"{}\" + 1", rng.below(400), rng.pick(&["é", "日本語", "💥💥", "ß→"])));
        }
    }
    lines.join("\n")
}

fn initial_text(rng: &mut Rng) -> String {
    // now and then a long document in which every line earns a diagnostic (hundreds of them)
    if rng.chance(1, 40) {
        let n = 110 + rng.usize(300);
        return (1..=n)
            .map(|i| match i % 4 {
                0 => format!("{} PRINT Q{}", i, i),
                1 => format!("{} PRINT \"open {}", i, i),
                2 => format!("{} GOTO {}", i, 100000 + i),
                _ => format!("{} C = \"s\" + {}", i, i),
            })
            .collect::<Vec<_>>()
            .join("\n");
    }
    let mut k = Knobs::swarm(rng);
    k.input = rng.chance(1, 2);
    k.stop = rng.chance(1, 3);
    k.max_lines = 2 + rng.usize(12);
    let mut grng = rng.fork();
    let (prog, _) = Gen::new(&mut grng, k).program();
    let text = prog.iter().map(print_line).collect::<Vec<_>>().join("\n");
    // files saved by some editors start with a byte order mark: it is part of the text the client sends
    if rng.chance(1, 12) {
        format!("{}{}", '\u{feff}', text)
    } else {
        text
    }
}

impl Prop for C20 {
    const ID: &'static str = "C20";
    type Case = Case;

    fn meta() -> Meta {
        Meta {
            level: "exploration",
            rule: "Each run starts the real abasic-lsp process and a simulated editor performs initialize (one of five client capability sets: empty, utf-16 only, utf-8 or utf-32 offered first, VS-Code-like) / initialized, then a PRNG-driven history of 1-40 messages over 1-3 URIs: didOpen, didChange (full sync; also with an empty change list), semanticTokens/full (also for a URI never opened), didChange before didOpen, re-didOpen, an unknown notification and an unknown request, bursts of 2-8 didChange pipelined without reading in between, finally shutdown/exit. Document texts come from an editing simulator: a generated program mutated by keystroke-like edits (insert/delete a character, duplicate a line, empty a line to its bare number, duplicate a line number with an emptied or untokenizable second definition, break a string, paste non-ASCII incl. astral characters and U+FEFF in front of errors, a byte order mark at the start of the document, unnumbered/blank lines, token and character soup, LF<->CRLF, occasionally nesting up to 100000 deep). Oracle: the process answers every didOpen / non-empty didChange with exactly one publishDiagnostics for that URI (in order, also when pipelined) and every semanticTokens request with one response of the same id; every diagnostic range lies on an existing line with start <= end <= the line's length in UTF-16 units; semantic tokens decode to ordered non-overlapping in-line tokens with types inside the legend of the server's own initialize reply; the multiset of (severity, message, line) equals the in-process analyzer's messages for that text, and where the analyzer's byte range falls on character boundaries the reported range equals its UTF-16 conversion. distinct_nontrivial = distinct message-history hashes among sessions with >= 3 messages and >= 1 document.",
            real: &["abasic-lsp binary (main loop, lsp-server framing and I/O threads) built from /repo without the verification cfg", "abasic-core analyzer (in the server and, as oracle, in-process)"],
            stub: &["the editor (client side of the protocol, document editing)"],
            assumptions: &[
                "stdio transport only (--listen is not exercised)",
                "a document's lines are split on LF; a trailing CR counts as part of the line for the column bound",
                "replies are awaited up to 20 s; no reply or EOF on the server's stdout counts as the server having died",
                "unknown requests are not answered by this server; that is outside the property and not checked",
            ],
            reach: &[
                "reach.diagnostics_compared",
                "reach.tokens_decoded",
                "reach.non_ascii_document",
                "fault.pipelined_changes",
                "fault.change_before_open",
                "fault.tokens_before_open",
                "fault.reopen",
                "fault.crlf",
                "fault.unknown_method",
                "reach.clean_shutdown",
            ],
        }
    }

    fn runs(tier: Tier) -> u64 {
        match tier {
            Tier::Quick => 2_500,
            Tier::Thorough => 100_000,
        }
    }

    fn generate(rng: &mut Rng, _ctx: &mut Ctx) -> Case {
        let nuri = if rng.chance(1, 4) { 4 + rng.below(3) as u8 } else { 1 + rng.below(3) as u8 };
        let mut texts: Vec<String> = (0..nuri).map(|_| initial_text(rng)).collect();
        let n = 1 + rng.usize(40);
        let mut msgs = vec![];
        let mut opened = vec![false; nuri as usize];
        for _ in 0..n {
            let k = rng.below(nuri as u64) as u8;
            let ki = k as usize;
            // evolve the document
            for _ in 0..rng.usize(3) {
                texts[ki] = edit_text(rng, &texts[ki]);
            }
            if rng.chance(1, 150) {
                let d = rng.pick(&[50usize, 300, 3000, 20000, 100000]);
                texts[ki].push_str(&format!("\n{} {}", 500 + rng.below(100), nested(rng.pick(NEST_KINDS), d)));
            }
            if rng.chance(1, 25) {
                texts[ki] = if texts[ki].contains("\r\n") { texts[ki].replace("\r\n", "\n") } else { texts[ki].replace('\n', "\r\n") };
            }
            let t = texts[ki].clone();
            let m = match rng.below(20) {
                0..=2 => {
                    opened[ki] = true;
                    Msg::Open(k, t)
                }
                3..=10 => {
                    if !opened[ki] && rng.chance(9, 10) {
                        opened[ki] = true;
                        Msg::Open(k, t)
                    } else {
                        Msg::Change(k, t)
                    }
                }
                11..=14 => Msg::Tokens(k),
                15 => {
                    if rng.chance(1, 2) {
                        Msg::ChangeEmpty(k)
                    } else {
                        let b = 2 + rng.usize(3);
                        let mut v = vec![];
                        for _ in 0..b {
                            texts[ki] = edit_text(rng, &texts[ki]);
                            v.push(texts[ki].clone());
                        }
                        opened[ki] = true;
                        Msg::ChangeMulti(k, v)
                    }
                }
                16 => Msg::UnknownNotification,
                17 => Msg::UnknownRequest,
                _ => {
                    let b = 2 + rng.usize(7);
                    let mut v = vec![];
                    for _ in 0..b {
                        texts[ki] = edit_text(rng, &texts[ki]);
                        v.push(texts[ki].clone());
                    }
                    opened[ki] = true;
                    Msg::Pipeline(k, v)
                }
            };
            msgs.push(m);
        }
        Case { msgs, caps: if rng.chance(1, 2) { 0 } else { 1 + rng.below(4) as u8 } }
    }

    fn dangerous(c: &Case) -> bool {
        // the in-process oracle runs the analyzer in this worker: deep nesting could abort it
        c.msgs.iter().any(|m| match m {
            Msg::Open(_, t) | Msg::Change(_, t) => t.lines().any(|l| l.len() > 600),
            Msg::Pipeline(_, ts) | Msg::ChangeMulti(_, ts) => ts.iter().any(|t| t.lines().any(|l| l.len() > 600)),
            _ => false,
        })
    }

    fn execute(c: &Case, ctx: &mut Ctx) -> Option<Violation> {
        session(c, ctx)
    }

    fn shrink(c: &Case) -> Vec<Case> {
        let mut out: Vec<Case> = shrink_vec(&c.msgs).into_iter().map(|msgs| Case { msgs, caps: c.caps }).collect();
        for (i, m) in c.msgs.iter().enumerate() {
            let shrink_doc = |t: &str| -> Vec<String> {
                let lines: Vec<String> = t.split('\n').map(|s| s.to_string()).collect();
                let mut v: Vec<String> = shrink_vec(&lines).into_iter().map(|l| l.join("\n")).collect();
                for (j, l) in lines.iter().enumerate() {
                    for l2 in shrink_text(l) {
                        let mut ls = lines.clone();
                        ls[j] = l2;
                        v.push(ls.join("\n"));
                    }
                }
                v
            };
            match m {
                Msg::Open(k, t) => {
                    for t2 in shrink_doc(t) {
                        let mut msgs = c.msgs.clone();
                        msgs[i] = Msg::Open(*k, t2);
                        out.push(Case { msgs, caps: c.caps });
                    }
                }
                Msg::Change(k, t) => {
                    for t2 in shrink_doc(t) {
                        let mut msgs = c.msgs.clone();
                        msgs[i] = Msg::Change(*k, t2);
                        out.push(Case { msgs, caps: c.caps });
                    }
                }
                Msg::Pipeline(k, ts) => {
                    for ts2 in shrink_vec(ts) {
                        if !ts2.is_empty() {
                            let mut msgs = c.msgs.clone();
                            msgs[i] = Msg::Pipeline(*k, ts2);
                            out.push(Case { msgs, caps: c.caps });
                        }
                    }
                    if let Some(last) = ts.last() {
                        let mut msgs = c.msgs.clone();
                        msgs[i] = Msg::Change(*k, last.clone());
                        out.push(Case { msgs, caps: c.caps });
                    }
                }
                _ => {}
            }
        }
        out
    }
}
