//! C18 — RND is a pure, in-range function of the seed.
//! Seeds come from clocks in both front ends; the fault is a clock that jumps
//! (any u64). The generator is checked in lock-step with an LCG model under call
//! histories, on the bare core and on the Web adapter given the same seed.

use crate::engine::{shrink_vec, Ctx, Meta, Prop, Tier, Violation};
use crate::hostile::BOUNDARY_SEEDS;
use crate::prng::{fnv, Rng};
use crate::sess::{Op, Rec, Res, Sess, St};
use crate::websess::{WSt, WebSess};
use serde::{Deserialize, Serialize};

pub struct C18;

#[derive(Clone, Debug, PartialEq, Serialize, Deserialize)]
pub enum ROp {
    /// randomize(seed) on both front ends
    Seed(u64),
    /// immediate `PRINT RND(<arg spelling>)`
    Rnd(String),
    /// a stored program that draws `n` numbers, run to completion, with a break+CONT after `brk` ticks
    Prog { draws: u32, zero_every: u32, brk: Option<u32> },
    /// host activity that must not touch the generator
    Noise(u32),
    /// `FOR Q = 1 TO n : PRINT RND(1) : NEXT Q`: a long walk through the generator's states
    Walk(u32),
    /// an immediate PRINT whose expression calls RND more than once (nested / side by side)
    Expr(u8),
    /// a program that defines a user function called RND (the built-in must stay the built-in)
    ShadowDef,
    /// a program that draws, then waits at `INPUT C(INT(RND(1) * 3))` (a request whose target draws), then draws
    /// again; the host re-seeds while the program is running (`seed_running`) and/or while it waits for the
    /// reply (`seed_at_input`), and answers `bad` unsuitable replies before the suitable one
    Suspended { bad: u32, seed_running: Option<u64>, seed_at_input: Option<u64> },
}

#[derive(Clone, Debug, Serialize, Deserialize)]
pub struct Case {
    pub ops: Vec<ROp>,
}

const M: u128 = 1 << 33;

struct Lcg {
    x: u64,
    /// whether a value has been produced since the last seeding
    produced: bool,
}

impl Lcg {
    fn value(&self) -> f64 {
        self.x as f64 / M as f64
    }
    fn advance(&mut self) -> f64 {
        self.x = ((1664525u128 * self.x as u128 + 1013904223u128) % M) as u64;
        self.produced = true;
        self.value()
    }
}

/// arguments that are computed rather than written: spelling, value (the sign of the value is all RND looks at;
/// an argument that overflowed to +infinity is positive, one that overflowed to -infinity negative)
const COMPUTED_ARGS: &[(&str, f64)] = &[
    ("10^400", f64::INFINITY),
    ("10^200*10^200", f64::INFINITY),
    ("-(10^400)", f64::NEG_INFINITY),
    ("0-10^400", f64::NEG_INFINITY),
    ("1-1", 0.0),
    ("0*10^300", 0.0),
    ("1/3", 1.0 / 3.0),
    ("2-1", 1.0),
    ("1-2", -1.0),
    ("10^-400", 0.0),
    ("INT(0.5)", 0.0),
    ("ABS(-1)", 1.0),
    ("10^308*1.5", 1.5e308),
];

fn arg_value(spelling: &str) -> f64 {
    if let Some((_, v)) = COMPUTED_ARGS.iter().find(|(s, _)| *s == spelling) {
        return *v;
    }
    spelling.trim().parse::<f64>().unwrap()
}

fn in_unit(text: &str) -> bool {
    match text.trim_end().parse::<f64>() {
        Ok(v) => (0.0..1.0).contains(&v),
        Err(_) => false,
    }
}

fn web_line(w: &mut WebSess, line: &str, ctx: &mut Ctx) -> Result<(Vec<String>, Option<String>), Violation> {
    web_line_n(w, line, ctx, 5000)
}

fn web_line_n(w: &mut WebSess, line: &str, ctx: &mut Ctx, max_ticks: u32) -> Result<(Vec<String>, Option<String>), Violation> {
    let trap = |what: &str, p: String| Violation::new("C18/web-trap", format!("panic@{p}"), format!("{what} trapped: {p}"));
    w.start_evaluating(line).map_err(|p| trap(line, p))?;
    ctx.calls(1);
    let mut prints = vec![];
    let mut err = None;
    let mut n = 0;
    loop {
        for o in w.take_latest_output().map_err(|p| trap("take_latest_output", p))? {
            if o.kind == "Print" {
                prints.push(o.text);
            }
        }
        match w.state().map_err(|p| trap("get_state", p))? {
            WSt::Errored => {
                err = w.take_latest_error().map_err(|p| trap("take_latest_error", p))?;
                break;
            }
            WSt::Running if n < max_ticks => {
                w.continue_evaluating().map_err(|p| trap("continue_evaluating", p))?;
                ctx.calls(1);
                n += 1;
            }
            _ => break,
        }
    }
    Ok((prints, err))
}

fn check(c: &Case, ctx: &mut Ctx) -> Option<Violation> {
    let v = |class: &str, fp: String, detail: String| Some(Violation::new(&format!("C18/{class}"), fp, detail));
    let mut s = Sess::new();
    let mut w = WebSess::new();
    let mut m = Lcg { x: 0, produced: false };
    let mut distinct_states = 0u64;
    for (i, op) in c.ops.iter().enumerate() {
        match op {
            ROp::Seed(seed) => {
                let r = s.apply(&Op::Seed(*seed))?;
                if let Some(p) = r.panicked() {
                    return v("panic", format!("panic@{p}"), format!("randomize({seed}) unwound: {p}"));
                }
                if let Err(p) = w.randomize(*seed) {
                    return v("web-trap", format!("panic@{p}"), format!("web randomize({seed}) trapped: {p}"));
                }
                m.x = (*seed as u128 % M) as u64;
                m.produced = false;
                if *seed >= 1 << 44 {
                    ctx.count("fault.seed_jump>=2^44");
                } else if *seed >= 1 << 33 {
                    ctx.count("fault.seed_jump>=2^33");
                } else {
                    ctx.count("fault.seed<2^33");
                }
            }
            ROp::Rnd(spelling) => {
                let a = arg_value(spelling);
                let line = format!("PRINT RND({})", spelling);
                let call = s.apply(&Op::Line(line.clone()))?;
                ctx.calls(1);
                if let Some(p) = call.panicked() {
                    return v("panic", format!("panic@{p}"), format!("op {i} `{line}` (model state {}) unwound: {p}", m.x));
                }
                let (wprints, werr) = match web_line(&mut w, &line, ctx) {
                    Ok(x) => x,
                    Err(e) => return Some(e),
                };
                let prints: Vec<String> = call.recs.iter().filter_map(|r| if let Rec::Print(s) = r { Some(s.clone()) } else { None }).collect();
                if a < 0.0 {
                    ctx.count("reach.negative_argument");
                    if call.err().map(|e| e.kind.as_str()) != Some("Unimplemented") {
                        return v("negative-arg", format!("{:?}", call.err().map(|e| e.kind.clone())), format!("op {i} `{line}` gave {:?} {:?}", call.res, prints));
                    }
                    if werr.as_deref().map(|e| e.starts_with("UNIMPLEMENTED")) != Some(true) {
                        return v("front-ends-differ", "negative arg".into(), format!("op {i} `{line}`: web gave {:?} {:?}", wprints, werr));
                    }
                } else {
                    let was_fresh = !m.produced;
                    let expect = if a == 0.0 {
                        ctx.count("reach.zero_argument");
                        m.value()
                    } else {
                        m.advance()
                    };
                    if !matches!(call.res, Res::Ok) || prints.len() != 1 {
                        return v("rnd-failed", format!("{:?}", call.err().map(|e| e.kind.clone())), format!("op {i} `{line}` gave {:?} {:?}", call.res, prints));
                    }
                    if !in_unit(&prints[0]) {
                        return v("out-of-range", format!("arg{}0", if a == 0.0 { "==" } else { ">" }), format!("op {i} `{line}` printed {:?}, not in [0,1) (model state {})", prints[0], m.x));
                    }
                    let want = format!("{}\n", expect);
                    if prints[0] != want && !(a == 0.0 && was_fresh) {
                        return v(
                            "sequence-differs",
                            format!("arg{}0", if a == 0.0 { "==" } else { ">" }),
                            format!("op {i} `{line}` printed {:?}, the LCG gives {:?} (state {})", prints[0], want, m.x),
                        );
                    }
                    if wprints != prints {
                        return v("front-ends-differ", "value".into(), format!("op {i} `{line}`: core {:?} web {:?} {:?}", prints, wprints, werr));
                    }
                }
                distinct_states += 1;
                ctx.state(m.x);
            }
            ROp::Expr(kind) => {
                let (line, want) = match kind % 3 {
                    0 => {
                        m.advance();
                        ("PRINT RND(RND(1) + 1)", m.advance())
                    }
                    1 => {
                        let a = m.advance();
                        let b = m.advance();
                        ("PRINT RND(1) + RND(1)", a + b)
                    }
                    _ => {
                        let a = m.advance();
                        ("PRINT RND(RND(1) * 0)", a)
                    }
                };
                let call = s.apply(&Op::Line(line.to_string()))?;
                ctx.calls(1);
                if let Some(p) = call.panicked() {
                    return v("panic", format!("panic@{p}"), format!("op {i} `{line}` unwound: {p}"));
                }
                let prints: Vec<String> = call.recs.iter().filter_map(|r| if let Rec::Print(s) = r { Some(s.clone()) } else { None }).collect();
                let (wprints, werr) = match web_line(&mut w, line, ctx) {
                    Ok(x) => x,
                    Err(e) => return Some(e),
                };
                if !matches!(call.res, Res::Ok) || prints != vec![format!("{}\n", want)] {
                    return v("sequence-differs", "several calls in one expression".into(), format!("op {i} `{line}` gave {:?} {:?}, the LCG gives {:?} (state {})", call.res, prints, want, m.x));
                }
                if wprints != prints {
                    return v("front-ends-differ", "value".into(), format!("op {i} `{line}`: core {:?} web {:?} {:?}", prints, wprints, werr));
                }
                ctx.count("reach.several_rnd_calls_in_one_expression");
                ctx.state(m.x);
            }
            ROp::ShadowDef => {
                // (the line stays in the program: an edit would forget the function again)
                for l in ["5 DEF RND(X) = X / 4", "RUN"] {
                    let calls = s.line_and_settle(l, 20);
                    for c in &calls {
                        if let Some(p) = c.panicked() {
                            return v("panic", format!("panic@{p}"), format!("op {i} `{l}` unwound: {p}"));
                        }
                    }
                    if let Err(e) = web_line_n(&mut w, l, ctx, 20) {
                        return Some(e);
                    }
                }
                ctx.count("fault.user_function_named_RND_defined");
            }
            ROp::Suspended { bad, seed_running, seed_at_input } => {
                // "two interpreters given the same seed produce the same sequence" has no clause about *when* the
                // seed is given: a seed given between two calls of a running or waiting program counts like any other.
                // And nothing but seeding moves the generator anywhere except forward: across every host call the
                // state advances along the LCG orbit by the number of RND calls made (here 0, 1 or 2), never back.
                let lines = ["10 PRINT RND(1)", "20 INPUT C(INT(RND(1) * 3))", "30 PRINT RND(1)", "40 PRINT RND(1)"];
                for l in &lines {
                    s.apply(&Op::Line(l.to_string()))?;
                    if let Err(p) = w.start_evaluating(l) {
                        return v("web-trap", format!("panic@{p}"), format!("web line trapped: {p}"));
                    }
                }
                // forward-only: real state must be model state advanced by 0..=2 steps; the model follows
                let follow = |m: &mut Lcg, real: u64| -> Option<u32> {
                    let mut x = m.x;
                    for j in 0..=2u32 {
                        if x == real {
                            if j > 0 {
                                m.x = x;
                                m.produced = true;
                            }
                            return Some(j);
                        }
                        x = ((1664525u128 * x as u128 + 1013904223u128) % M) as u64;
                    }
                    None
                };
                let mut got: Vec<String> = vec![];
                let mut seeded_running = seed_running.is_none();
                let mut seeded_at_input = seed_at_input.is_none();
                let mut bad_left = *bad;
                let mut call = s.apply(&Op::Line("RUN".into()))?;
                let mut n = 0;
                loop {
                    ctx.calls(1);
                    n += 1;
                    if let Some(p) = call.panicked() {
                        return v("panic", format!("panic@{p}"), format!("op {i} program with a drawing INPUT target unwound: {p}"));
                    }
                    if let Some(e) = call.err() {
                        return v("rnd-failed", e.kind.clone(), format!("op {i} program with a drawing INPUT target failed: {}", e.text));
                    }
                    let prints: Vec<String> = call.recs.iter().filter_map(|r| if let Rec::Print(s) = r { Some(s.clone()) } else { None }).collect();
                    for pr in &prints {
                        // a printed draw is exactly the next element
                        let want = format!("{}\n", m.advance());
                        if *pr != want {
                            return v("sequence-differs", "suspended program".into(), format!("op {i}: draw {} of the program printed {:?}, the LCG gives {:?} (state {})", got.len(), pr, want, m.x));
                        }
                        got.push(pr.clone());
                    }
                    let real = s.probe(false).rng_state;
                    if prints.is_empty() {
                        if follow(&mut m, real).is_none() {
                            return v(
                                "state-differs",
                                "generator moved off the forward orbit".into(),
                                format!("op {i}: after host call {n} of the program (state {:?}, {} unsuitable replies left) the generator is at {real}; the model is at {} and only 0..2 forward steps are possible", s.state(), bad_left, m.x),
                            );
                        }
                    } else if real != m.x {
                        return v("state-differs", "after a printed draw".into(), format!("op {i}: generator at {real}, model at {}", m.x));
                    }
                    match s.state() {
                        St::Running => {
                            if !seeded_running && got.len() == 1 {
                                seeded_running = true;
                                let sd = seed_running.unwrap();
                                s.apply(&Op::Seed(sd))?;
                                m = Lcg { x: (sd as u128 % M) as u64, produced: false };
                                ctx.count("fault.seed_while_running");
                                let real = s.probe(false).rng_state;
                                if real != m.x {
                                    return v("state-differs", "seed given while running".into(), format!("op {i}: randomize({sd}) between two calls of a running program left the generator at {real}, the model says {}", m.x));
                                }
                            }
                            call = s.apply(&Op::Tick)?;
                        }
                        St::Awaiting => {
                            if !seeded_at_input {
                                seeded_at_input = true;
                                let sd = seed_at_input.unwrap();
                                s.apply(&Op::Seed(sd))?;
                                m = Lcg { x: (sd as u128 % M) as u64, produced: false };
                                ctx.count("fault.seed_while_awaiting_input");
                                let real = s.probe(false).rng_state;
                                if real != m.x {
                                    return v("state-differs", "seed given while awaiting input".into(), format!("op {i}: randomize({sd}) while the program waits for a reply left the generator at {real}, the model says {}", m.x));
                                }
                            }
                            if bad_left > 0 {
                                bad_left -= 1;
                                ctx.count("fault.unsuitable_reply_to_drawing_target");
                                call = s.apply(&Op::Reply("x".into()))?;
                            } else {
                                call = s.apply(&Op::Reply("5".into()))?;
                            }
                        }
                        _ => break,
                    }
                    if n > 60 {
                        break;
                    }
                }
                if got.len() != 3 {
                    return v("rnd-failed", "suspended program".into(), format!("op {i}: the program printed {} of its 3 draws", got.len()));
                }
                // the other front end, driven the same way
                let trap = |what: &str, p: String| Violation::new("C18/web-trap", format!("panic@{p}"), format!("op {i}: {what} trapped: {p}"));
                let mut wgot: Vec<String> = vec![];
                let mut wsr = seed_running.is_none();
                let mut wsi = seed_at_input.is_none();
                let mut wbad = *bad;
                if let Err(p) = w.start_evaluating("RUN") {
                    return Some(trap("RUN", p));
                }
                for _ in 0..60 {
                    match w.take_latest_output() {
                        Ok(os) => wgot.extend(os.into_iter().filter(|o| o.kind == "Print").map(|o| o.text)),
                        Err(p) => return Some(trap("take_latest_output", p)),
                    }
                    let st = match w.state() {
                        Ok(x) => x,
                        Err(p) => return Some(trap("get_state", p)),
                    };
                    ctx.calls(1);
                    let r = match st {
                        WSt::Running => {
                            if !wsr && wgot.len() == 1 {
                                wsr = true;
                                if let Err(p) = w.randomize(seed_running.unwrap()) {
                                    return Some(trap("randomize", p));
                                }
                            }
                            w.continue_evaluating()
                        }
                        WSt::Awaiting => {
                            if !wsi {
                                wsi = true;
                                if let Err(p) = w.randomize(seed_at_input.unwrap()) {
                                    return Some(trap("randomize", p));
                                }
                            }
                            if wbad > 0 {
                                wbad -= 1;
                                w.provide_input("x")
                            } else {
                                w.provide_input("5")
                            }
                        }
                        _ => break,
                    };
                    if let Err(p) = r {
                        return Some(trap("evaluating call", p));
                    }
                }
                if wgot != got {
                    return v("front-ends-differ", "suspended program".into(), format!("op {i}: core {:?} web {:?}", got, wgot));
                }
                for l in ["10", "20", "30", "40"] {
                    s.apply(&Op::Line(l.to_string()))?;
                    let _ = w.start_evaluating(l);
                }
                ctx.count("reach.suspended_program_draws");
            }
            ROp::Prog { draws, zero_every, brk } => {
                // a program that prints `draws` numbers; RUN and breaks must not disturb the sequence
                let mut lines = vec![];
                for k in 0..*draws {
                    let z = *zero_every > 0 && k % *zero_every == *zero_every - 1;
                    lines.push(format!("{} PRINT RND({})", 10 * (k + 1), if z { "0" } else { "1" }));
                }
                let mut want = vec![];
                for k in 0..*draws {
                    let z = *zero_every > 0 && k % *zero_every == *zero_every - 1;
                    let was_fresh = !m.produced;
                    let val = if z { m.value() } else { m.advance() };
                    want.push((format!("{}\n", val), z && was_fresh));
                }
                let mut got = vec![];
                for l in &lines {
                    s.apply(&Op::Line(l.clone()))?;
                    if let Err(p) = w.start_evaluating(l) {
                        return v("web-trap", format!("panic@{p}"), format!("web line trapped: {p}"));
                    }
                }
                let mut call = s.apply(&Op::Line("RUN".into()))?;
                let mut ticks = 0u32;
                loop {
                    ctx.calls(1);
                    if let Some(p) = call.panicked() {
                        return v("panic", format!("panic@{p}"), format!("op {i} program run unwound: {p}"));
                    }
                    if let Some(e) = call.err() {
                        return v("rnd-failed", e.kind.clone(), format!("op {i} program failed: {}", e.text));
                    }
                    got.extend(call.recs.iter().filter_map(|r| if let Rec::Print(s) = r { Some(s.clone()) } else { None }));
                    if s.state() != St::Running {
                        break;
                    }
                    ticks += 1;
                    if Some(ticks) == *brk {
                        s.apply(&Op::Break)?;
                        ctx.count("fault.break+cont_during_draws");
                        call = s.apply(&Op::Line("CONT".into()))?;
                    } else {
                        call = s.apply(&Op::Tick)?;
                    }
                }
                let (wgot, werr) = match web_line(&mut w, "RUN", ctx) {
                    Ok(x) => x,
                    Err(e) => return Some(e),
                };
                for (k, (w_, fresh_zero)) in want.iter().enumerate() {
                    let g = got.get(k);
                    if let Some(g) = g {
                        if !in_unit(g) {
                            return v("out-of-range", "program".into(), format!("op {i}: draw {k} printed {:?}", g));
                        }
                    }
                    if !fresh_zero && g != Some(w_) {
                        return v("sequence-differs", "program".into(), format!("op {i}: draw {k}: printed {:?}, the LCG gives {:?}", g, w_));
                    }
                }
                if wgot != got {
                    return v("front-ends-differ", "program".into(), format!("op {i}: core {:?} web {:?} {:?}", got, wgot, werr));
                }
                // remove the program again
                for k in 0..*draws {
                    let del = format!("{}", 10 * (k + 1));
                    s.apply(&Op::Line(del.clone()))?;
                    let _ = w.start_evaluating(&del);
                }
                ctx.count("reach.program_draws");
            }
            ROp::Walk(n) => {
                let prog = format!("10 FOR Q = 1 TO {} : PRINT RND(1) : NEXT Q", n);
                s.apply(&Op::Line(prog.clone()))?;
                if let Err(p) = w.start_evaluating(&prog) {
                    return v("web-trap", format!("panic@{p}"), format!("web line trapped: {p}"));
                }
                let mut call = s.apply(&Op::Line("RUN".into()))?;
                let mut k = 0u32;
                loop {
                    if let Some(p) = call.panicked() {
                        return v("panic", format!("panic@{p}"), format!("op {i} walk unwound: {p}"));
                    }
                    if let Some(e) = call.err() {
                        return v("rnd-failed", e.kind.clone(), format!("op {i} walk failed: {}", e.text));
                    }
                    for r in &call.recs {
                        if let Rec::Print(t) = r {
                            let want = format!("{}\n", m.advance());
                            k += 1;
                            ctx.state(m.x);
                            if *t != want || !in_unit(t) {
                                return v("sequence-differs", "walk".into(), format!("op {i}: draw {k} of the walk printed {:?}, the LCG gives {:?} (state {})", t, want, m.x));
                            }
                        }
                    }
                    if s.state() != St::Running {
                        break;
                    }
                    call = s.apply(&Op::Tick)?;
                }
                ctx.calls(3 * *n as u64);
                // the same walk on the web adapter
                let (wgot, werr) = match web_line_n(&mut w, "RUN", ctx, 4 * *n + 16) {
                    Ok(x) => x,
                    Err(e) => return Some(e),
                };
                if wgot.len() as u32 != *n || werr.is_some() || wgot.last().map(|t| t.as_str()) != Some(format!("{}\n", m.value()).as_str()) {
                    return v("front-ends-differ", "walk".into(), format!("op {i}: web walk printed {} numbers, last {:?} (error {:?}); the LCG ends at {:?}", wgot.len(), wgot.last(), werr, m.value()));
                }
                let _ = w.start_evaluating("10");
                if k != *n {
                    return v("sequence-differs", "walk length".into(), format!("op {i}: the walk printed {k} numbers, expected {n}"));
                }
                s.apply(&Op::Line("10".into()))?;
                distinct_states += k as u64;
                ctx.count("reach.long_walk");
            }
            ROp::Noise(kind) => {
                let before = s.probe(false).rng_state;
                let lines: Vec<&str> = match kind % 6 {
                    0 => vec!["10 PRINT 1", "RUN", "10"],
                    1 => vec!["LIST"],
                    2 => vec!["C = 5 : PRINT C"],
                    3 => vec!["10 STOP", "RUN", "CONT", "10"],
                    4 => vec!["PRINT 1 / 0"],
                    _ => vec!["10 GOTO 10", "RUN"],
                };
                for l in lines {
                    let calls = s.line_and_settle(l, 50);
                    ctx.calls(calls.len() as u64);
                    for cl in &calls {
                        if let Some(p) = cl.panicked() {
                            return v("panic", format!("panic@{p}"), format!("noise `{l}` unwound: {p}"));
                        }
                    }
                    if s.state() == St::Running {
                        s.apply(&Op::Break);
                        s.apply(&Op::Line("10".into()));
                    }
                    // the web twin gets the same lines so that it stays comparable
                    let _ = web_line(&mut w, l, ctx);
                    if let Ok(WSt::Running) = w.state() {
                        let _ = w.break_at_current_location();
                        let _ = w.take_latest_output();
                        let _ = web_line(&mut w, "10", ctx);
                    }
                }
                let after = s.probe(false).rng_state;
                if before != after {
                    return v("noise-moved-generator", format!("kind {}", kind % 6), format!("op {i}: host activity changed the generator state {before} -> {after}"));
                }
                ctx.count("fault.noise_between_draws");
            }
        }
        // the real state must be the model's (reduced) state
        let real = s.probe(false).rng_state;
        if (real as u128 % M) as u64 != m.x {
            return v("state-differs", "probe".into(), format!("op {i} {:?}: generator state {real} (mod 2^33 = {}) vs model {}", op, real as u128 % M, m.x));
        }
    }
    if distinct_states >= 3 {
        ctx.nontrivial(fnv(format!("{:?}", c.ops).as_bytes()));
    }
    None
}

impl Prop for C18 {
    const ID: &'static str = "C18";
    type Case = Case;

    fn meta() -> Meta {
        Meta {
            level: "exploration",
            rule: "Each run: randomize(s) with s from the boundary dictionary (0, 2^33-1, 2^33, 2^33+1, 2^40, 2^43, 2^44-1, 2^44, 2^44+1, 2^53, 2^63, 2^64-2, 2^64-1, and the two seeds that reach the largest states) or uniform in [0,2^33), [2^33,2^44), [2^44,2^64); then 1-200 draws `PRINT RND(a)` with a positive / zero / negative in random order (numerals, and computed arguments: sums and quotients, INT/ABS results, and arithmetic that overflowed to +infinity (positive: a draw) or -infinity (negative: refused) or underflowed to 0), as immediate lines and inside stored programs run with break+CONT, with expressions that call RND twice (nested or side by side) and a stored DEF of a user function named RND, and in a program that waits at `INPUT C(INT(RND(1) * 3))` (a request whose target draws) answered with 0-3 unsuitable replies before the suitable one while the host re-seeds between two calls of the running program and/or while it waits (the state may only move forward along the orbit by 0..2 steps per host call, a seed given at any moment counts, every printed draw is exactly the next element), interleaved with re-seeding and with host activity that must not touch the generator (RUN of other programs, LIST, STOP/CONT, failing lines, a broken endless loop); every line is also given to the Web adapter (real abasic-web code, natively compiled) seeded identically. Oracle: LCG model in u128 (x <- (1664525 x + 1013904223) mod 2^33), printed text == Display(x / 2^33), value in [0,1), RND(0) repeats without advancing (right after seeding only the range is required), negative argument -> UNIMPLEMENTED without advancing, generator state (probe) == model state after every op, both front ends print the same. distinct_nontrivial = distinct op-sequence hashes among runs with >= 3 draws; distinct_states = distinct generator states visited.",
            real: &["abasic-core Rng + RND builtin", "abasic-web JsInterpreter (native rlib)"],
            stub: &["the clocks that produce seeds (CLI SystemTime, Web Date.now)", "u128 LCG model"],
            assumptions: &[
                "NOT covered: the statement's exhaustive sweep of all 2^33 generator states (that one of them maps to 1.0 can only be found by enumeration, which is a different technique); the evidence reports the number of distinct states actually visited",
            ],
            reach: &["fault.seed_jump>=2^44", "fault.seed_jump>=2^33", "reach.negative_argument", "reach.zero_argument", "reach.program_draws", "fault.noise_between_draws", "reach.suspended_program_draws", "fault.seed_while_running", "fault.seed_while_awaiting_input", "fault.unsuitable_reply_to_drawing_target"],
        }
    }

    fn runs(tier: Tier) -> u64 {
        match tier {
            Tier::Quick => 60_000,
            Tier::Thorough => 2_000_000,
        }
    }

    fn generate(rng: &mut Rng, ctx: &mut Ctx) -> Case {
        let mut ops = vec![];
        let seed = |rng: &mut Rng| match rng.below(5) {
            0..=1 => rng.pick(BOUNDARY_SEEDS),
            2 => rng.below(1 << 33),
            3 => (1 << 33) + rng.below((1 << 44) - (1 << 33)),
            _ => (1u64 << 44) + rng.below(u64::MAX - (1 << 44)),
        };
        if rng.chance(9, 10) {
            ops.push(ROp::Seed(seed(rng)));
        }
        let n = 1 + rng.usize(match ctx.tier {
            Tier::Quick => 60,
            Tier::Thorough => 200,
        });
        for _ in 0..n {
            let op = match rng.below(20) {
                0..=9 => ROp::Rnd(
                    rng.pick(&["1", "1", "1", "0.5", "100", "0.001", "2.5", "1000000", "0.0000000000000000001", ".000000000000000000000000000001", "0.9999999999999999"])
                        .to_string(),
                ),
                10 if rng.chance(1, 2) => ROp::Rnd(rng.pick(COMPUTED_ARGS).0.to_string()),
                10..=12 => ROp::Rnd(rng.pick(&["0", "0.0", "00", "-0"]).to_string()),
                13..=14 => ROp::Rnd(rng.pick(&["-1", "-0.5", "-100", "-0.0000000000000000001"]).to_string()),
                15 if rng.chance(1, 2) => ROp::Expr(rng.below(3) as u8),
                15 if rng.chance(1, 4) => ROp::ShadowDef,
                16 if rng.chance(1, 2) => ROp::Suspended {
                    bad: rng.below(4) as u32,
                    seed_running: if rng.chance(1, 3) { Some(seed(rng)) } else { None },
                    seed_at_input: if rng.chance(1, 3) { Some(seed(rng)) } else { None },
                },
                15 => ROp::Seed(seed(rng)),
                16..=17 => ROp::Prog {
                    draws: 1 + rng.below(8) as u32,
                    zero_every: rng.below(4) as u32,
                    brk: if rng.chance(1, 2) { Some(1 + rng.below(6) as u32) } else { None },
                },
                _ => ROp::Noise(rng.below(6) as u32),
            };
            ops.push(op);
        }
        if rng.chance(1, 8) {
            let n = match ctx.tier {
                Tier::Quick => 200 + rng.below(3000) as u32,
                Tier::Thorough => 2000 + rng.below(60000) as u32,
            };
            let at = rng.usize(ops.len() + 1);
            ops.insert(at, ROp::Walk(n));
        }
        Case { ops }
    }

    fn execute(c: &Case, ctx: &mut Ctx) -> Option<Violation> {
        check(c, ctx)
    }

    fn shrink(c: &Case) -> Vec<Case> {
        let mut out: Vec<Case> = shrink_vec(&c.ops).into_iter().map(|ops| Case { ops }).collect();
        for (i, op) in c.ops.iter().enumerate() {
            if let ROp::Walk(n) = op {
                if *n > 1 {
                    let mut ops = c.ops.clone();
                    ops[i] = ROp::Walk(n / 2);
                    out.push(Case { ops });
                }
            }
            if let ROp::Prog { draws, zero_every, brk } = op {
                if *draws > 1 {
                    let mut ops = c.ops.clone();
                    ops[i] = ROp::Prog { draws: draws - 1, zero_every: *zero_every, brk: *brk };
                    out.push(Case { ops });
                }
                if brk.is_some() {
                    let mut ops = c.ops.clone();
                    ops[i] = ROp::Prog { draws: *draws, zero_every: *zero_every, brk: None };
                    out.push(Case { ops });
                }
            }
        }
        out
    }
}
