//! C10 — RUN starts from a clean slate regardless of session history.
//! "Restart with only durable state surviving": the durable state is the program
//! text, the RNG state and the two option flags. Twin: interpreter A lives through
//! a PRNG-scheduled history, interpreter B is fresh and receives only the stored
//! lines; both then get the same flags, seed, RUN, ticks and replies.

use crate::ast::*;
use crate::drive::*;
use crate::engine::{shrink_vec, Ctx, Meta, Prop, Tier, Violation};
use crate::gen::{reply_script, Gen, Knobs, NUM_VARS};
use crate::prng::{fnv, Rng};
use crate::sess::{Op, Res, Sess, St};
use serde::{Deserialize, Serialize};

pub struct C10;

#[derive(Clone, Debug, Serialize, Deserialize)]
pub struct Case {
    pub history: Vec<Op>,
    pub flags: (bool, bool),
    pub seed: u64,
    pub replies: Vec<String>,
    pub cap: u32,
}

fn numbered(text: &str) -> bool {
    text.trim_start().starts_with(|c: char| c.is_ascii_digit())
}

struct HistGen {
    line_nums: Vec<u64>,
    spare_lines: Vec<String>,
}

fn immediate(rng: &mut Rng, h: &HistGen, k: &Knobs) -> String {
    let mut g = Gen::new(rng, k.clone());
    let ln = |g: &mut Gen| -> u64 {
        if h.line_nums.is_empty() {
            10
        } else {
            g.rng.pick(&h.line_nums)
        }
    };
    match g.rng.below(19) {
        0..=3 => print_stmt(&g.assignment()),
        4 => {
            let a = g.rng.pick(&["C", "V", "K", "C$", "YZ", "Z$"]);
            match a {
                "V" => "DIM V(4, 7)".to_string(),
                "YZ" => "DIM YZ(2, 3, 4)".to_string(),
                "Z$" => "DIM Z$(2, 3)".to_string(),
                other => format!("DIM {}({})", other, 3 + g.rng.below(9)),
            }
        }
        5 => format!("FOR {} = 1 TO {}", g.rng.pick(NUM_VARS), 2 + g.rng.below(3)),
        6 => format!("GOSUB {}", ln(&mut g)),
        7 => format!("GOTO {}", ln(&mut g)),
        8 => format!("READ {}", if g.rng.chance(1, 2) { "C$" } else { "Q$, W$" }),
        9 => "CONT".to_string(),
        10 => print_stmt(&g.print()),
        11 => format!("{} = {} : GOSUB {}", g.rng.pick(NUM_VARS), g.rng.below(9), ln(&mut g)),
        12 => format!("FOR {} = 1 TO 2 : GOTO {}", g.rng.pick(NUM_VARS), ln(&mut g)),
        13 => "RESTORE".to_string(),
        14 => format!("NEXT {}", g.rng.pick(NUM_VARS)),
        // refused for nesting deeper than the evaluator's cap (or just below it: accepted)
        16 => {
            let n = g.rng.pick(&[255usize, 256, 257, 300]);
            format!("PRINT {}1{}", "(".repeat(n), ")".repeat(n))
        }
        17 => {
            let n = g.rng.pick(&[255usize, 256, 257, 300]);
            format!("{}PRINT 1", "IF 1 THEN ".repeat(n))
        }
        // fails inside a user function (if the program defined one; else an array read)
        18 => format!("PRINT {}(1 / 0)", g.rng.pick(&["FNC", "FNJ", "FNW"])),
        _ => "RETURN".to_string(),
    }
}

fn choose(rng: &mut Rng, st: St, h: &HistGen, k: &Knobs, just_replied: bool) -> Op {
    match st {
        St::NewReq => Op::Replace,
        St::Running => {
            if just_replied && rng.chance(1, 3) {
                // the reply has been handed over but not yet consumed
                return Op::Break;
            }
            match rng.below(20) {
                0..=1 => Op::Break,
                2..=9 => Op::Settle(1 + rng.below(40) as u32),
                _ => Op::Tick,
            }
        }
        St::Awaiting => {
            if rng.chance(1, 5) {
                Op::Break
            } else {
                Op::Reply(rng.pick(&["5", "42", "hello", "", "1,2", "7:8", "abc"]).to_string())
            }
        }
        St::Idle if rng.chance(1, 250) => Op::Line("NEW".into()),
        St::Idle => match rng.below(20) {
            0..=4 => Op::Line("RUN".into()),
            5..=12 => Op::Line(immediate(rng, h, k)),
            13 if !h.spare_lines.is_empty() => Op::Line(rng.pick(&h.spare_lines)),
            14 if !h.line_nums.is_empty() => Op::Line(format!("{}", rng.pick(&h.line_nums))),
            15 => Op::Seed(rng.next()),
            16 => Op::Flags(rng.chance(1, 2), rng.chance(1, 2)),
            17 => Op::Line("CONT".into()),
            // a host break that arrives while idle (after a run ended, failed, was edited …): history like any other
            18 if rng.chance(1, 2) => Op::Break,
            _ => Op::Line(immediate(rng, h, k)),
        },
    }
}

/// apply the history; returns counts of faults that actually fired
/// Applies the history; returns the index of the last op that made the interpreter ask for its
/// replacement (an accepted NEW line), if any.
fn apply_history(s: &mut Sess, history: &[Op], ctx: &mut Ctx, count: bool) -> Result<Option<usize>, Violation> {
    let mut just_replied = false;
    let mut last_new: Option<usize> = None;
    for (idx, op) in history.iter().enumerate() {
        let before = s.state();
        if count {
            match op {
                Op::Break if before == St::Running && just_replied => ctx.count("fault.break_after_reply_before_consume"),
                Op::Break if before == St::Running => ctx.count("fault.break@running"),
                Op::Break if before == St::Awaiting => ctx.count("fault.break@awaiting"),
                Op::Break if before == St::Idle => ctx.count("fault.break@idle"),
                Op::Line(t) if before == St::Idle && t == "RUN" => ctx.count("fault.rerun_mid_session"),
                Op::Replace => ctx.count("fault.new+replace"),
                Op::Line(t) if before == St::Idle && numbered(t) => ctx.count("fault.edit"),
                Op::Line(t) if before == St::Idle && t == "CONT" => ctx.count("fault.cont"),
                Op::Line(_) if before == St::Idle => ctx.count("fault.immediate_statement"),
                _ => {}
            }
        }
        let Some(call) = s.apply(op) else { continue };
        ctx.calls(1);
        just_replied = matches!(op, Op::Reply(_));
        if let Res::Panic(p) = &call.res {
            return Err(Violation::new("C10/panic", format!("panic@{p}"), format!("history op {:?} unwound: {p}", op)));
        }
        if count && call.err().is_some() {
            ctx.count("reach.history_error");
        }
        if call.state == St::NewReq {
            last_new = Some(idx);
        }
    }
    Ok(last_new)
}

fn finish_and_run(s: &mut Sess, c: &Case, ctx: &mut Ctx) -> Result<Obs, Violation> {
    match s.state() {
        St::Running | St::Awaiting => {
            s.apply(&Op::Break);
        }
        St::NewReq => {
            s.apply(&Op::Replace);
        }
        St::Idle => {}
    }
    s.apply(&Op::Flags(c.flags.0, c.flags.1));
    s.apply(&Op::Seed(c.seed));
    let cfg = DriveCfg {
        replies: &c.replies,
        boundary_cap: c.cap,
        breaks: &[],
        at_stop: None,
        prop: "C10",
    };
    drive_run(s, Op::Line("RUN".into()), &cfg, ctx)
}

fn oracle(c: &Case, a: &mut Sess, last_new: Option<usize>, ctx: &mut Ctx) -> Option<Violation> {
    // what is pending in A right before the final RUN (reach probes)
    let p = a.probe(false);
    if p.breakpoint.is_some() {
        ctx.count("reach.history_leaves_breakpoint");
    }
    if !p.stack.is_empty() {
        ctx.count("reach.history_leaves_stack");
    }
    if !p.loops.is_empty() {
        ctx.count("reach.history_leaves_open_loop");
    }
    if p.data_cursor.is_some() {
        ctx.count("reach.history_leaves_data_cursor");
    }
    if !p.functions.is_empty() {
        ctx.count("reach.history_leaves_functions");
    }
    if p.input_pending {
        ctx.count("reach.history_leaves_pending_reply");
    }
    if !p.variables.is_empty() || !p.arrays.is_empty() {
        ctx.count("reach.history_leaves_variables");
    }
    let oa = match finish_and_run(a, c, ctx) {
        Ok(o) => o,
        Err(v) => return Some(v),
    };
    // B: fresh, only the stored lines (since A's last Replace), original order
    let mut b = Sess::new();
    let start = last_new.map(|i| i + 1).unwrap_or(0);
    // (a Replace op is only ever recorded right after NEW, when it is legal)
    for op in &c.history[start..] {
        if let Op::Line(t) = op {
            if numbered(t) {
                b.apply(op);
            }
        }
    }
    let ob = match finish_and_run(&mut b, c, ctx) {
        Ok(o) => o,
        Err(v) => return Some(v),
    };
    if oa.boundaries >= 5 {
        ctx.nontrivial(fnv(format!("{:?}", c.history).as_bytes()));
    }
    compare_obs("C10", "after-history", &oa, "fresh", &ob, false, true)
}

impl Prop for C10 {
    const ID: &'static str = "C10";
    type Case = Case;

    fn meta() -> Meta {
        Meta {
            level: "exploration",
            rule: "Each run: a program from the C03/C07 grammar (INPUT, STOP on) is entered into interpreter A, followed by a PRNG-scheduled history of up to 60 protocol-legal host calls chosen in the live state: RUN (to completion, to failure, or broken at a random boundary incl. while awaiting input and between a reply and the tick that consumes it), host breaks taken while the interpreter is idle (they leave a pending breakpoint like any other), immediate statements that assign, DIM, open FOR loops, GOSUB/GOTO into the program, READ, RESTORE, NEXT, RETURN, CONT, statements refused at the nesting cap (255-300 levels), calls failing inside a user function, NEW + re-entry, line edits/deletions, seeds, flag changes. Then A and a fresh B (given only the numbered lines, in order) get the same flags, seed, RUN, ticks and replies. Oracle: every record, request position, final error kind+line and the deep probe snapshot (variables, arrays incl. content hash, stacks, functions, data cursor, breakpoint, pending reply, RNG state) are equal. distinct_nontrivial = distinct history hashes among runs whose final RUN took >= 5 boundaries.",
            real: &["abasic-core Interpreter (RUN / reset_runtime_state, breakpoint, pending input, data cursor, functions, stacks)"],
            stub: &["the host (history and final run schedule)"],
            assumptions: &["after NEW + replacement, B receives only the lines entered since (the replacement interpreter is fresh by definition)"],
            reach: &[
                "reach.history_leaves_breakpoint",
                "reach.history_leaves_stack",
                "reach.history_leaves_open_loop",
                "reach.history_leaves_data_cursor",
                "reach.history_leaves_functions",
                "reach.history_leaves_pending_reply",
                "reach.history_leaves_variables",
                "fault.break_after_reply_before_consume",
                "fault.break@idle",
            ],
        }
    }

    fn runs(tier: Tier) -> u64 {
        match tier {
            Tier::Quick => 150_000,
            Tier::Thorough => 5_000_000,
        }
    }

    fn generate(_rng: &mut Rng, _ctx: &mut Ctx) -> Case {
        unreachable!("C10 interleaves generation and execution")
    }

    fn run_fresh(rng: &mut Rng, ctx: &mut Ctx) -> (Case, Option<Violation>) {
        let mut k = Knobs::swarm(rng);
        k.input = rng.chance(2, 3);
        k.stop = rng.chance(1, 2);
        k.max_lines = 3 + rng.usize(18);
        let mut grng = rng.fork();
        let (mut lines, info) = Gen::new(&mut grng, k.clone()).program();
        if rng.chance(1, 12) {
            // RUN on an empty program still has to reset everything
            lines.clear();
            ctx.count("reach.empty_program");
        }
        let mut history: Vec<Op> = vec![];
        let mut h = HistGen {
            line_nums: lines.iter().map(|l| l.num).collect(),
            spare_lines: vec![],
        };
        // a few alternative lines for edits
        for l in lines.iter().take(6) {
            let mut g = Gen::new(rng, k.clone());
            let body = print_stmt(&g.simple());
            h.spare_lines.push(format!("{} {}", l.num + rng.below(3), body));
        }
        let mut a = Sess::new();
        a.allow_idle_break = true;
        let mut order: Vec<usize> = (0..lines.len()).collect();
        rng.shuffle(&mut order);
        for i in order {
            let op = Op::Line(print_line(&lines[i]));
            a.apply(&op);
            history.push(op);
        }
        let n = rng.usize(60);
        let mut just_replied = false;
        let mut last_new: Option<usize> = None;
        let mut k2 = k.clone();
        k2.input = false;
        k2.stop = false;
        for _ in 0..n {
            let op = choose(rng, a.state(), &h, &k2, just_replied);
            if ctx.announce_all {
                let mut hh = history.clone();
                hh.push(op.clone());
                ctx.announce(&Case { history: hh, flags: (false, false), seed: 0, replies: vec![], cap: 400 });
            }
            if just_replied && matches!(op, Op::Break) && a.state() == St::Running {
                ctx.count("fault.break_after_reply_before_consume");
            }
            let r = apply_history(&mut a, std::slice::from_ref(&op), ctx, true);
            just_replied = matches!(op, Op::Reply(_));
            history.push(op);
            if let Ok(Some(_)) = r {
                last_new = Some(history.len() - 1);
            }
            if let Err(v) = r {
                let c = Case {
                    history,
                    flags: (false, false),
                    seed: 0,
                    replies: vec![],
                    cap: 400,
                };
                return (c, Some(v));
            }
        }
        let replies: Vec<String> = reply_script(rng, info.inputs * 2 + 2).into_iter().map(|r| r.text).collect();
        let c = Case {
            history,
            flags: (rng.chance(1, 4), rng.chance(1, 4)),
            seed: rng.below(1000),
            replies,
            cap: match ctx.tier {
                Tier::Quick => 400,
                Tier::Thorough => 1500,
            },
        };
        let v = oracle(&c, &mut a, last_new, ctx);
        (c, v)
    }

    fn execute(c: &Case, ctx: &mut Ctx) -> Option<Violation> {
        let mut a = Sess::new();
        a.allow_idle_break = true;
        let last_new = match apply_history(&mut a, &c.history, ctx, false) {
            Ok(l) => l,
            Err(v) => return Some(v),
        };
        oracle(c, &mut a, last_new, ctx)
    }

    fn shrink(c: &Case) -> Vec<Case> {
        let mut out = vec![];
        for h in shrink_vec(&c.history) {
            let mut n = c.clone();
            n.history = h;
            out.push(n);
        }
        for (i, op) in c.history.iter().enumerate() {
            if let Op::Settle(n) = op {
                if *n > 1 {
                    let mut x = c.clone();
                    x.history[i] = Op::Settle(n / 2);
                    out.push(x);
                    let mut x = c.clone();
                    x.history[i] = Op::Tick;
                    out.push(x);
                }
            }
        }
        if c.flags != (false, false) {
            let mut n = c.clone();
            n.flags = (false, false);
            out.push(n);
        }
        if !c.replies.is_empty() {
            for r in shrink_vec(&c.replies) {
                let mut n = c.clone();
                n.replies = r;
                out.push(n);
            }
        }
        out
    }
}
