//! C15 — loading a file equals typing it in, and CLI options apply in both modes.
//! (a) in-process twin: analyzer loader vs. prompt entry; (b) the real `abasic`
//! binary driven through argv + program file + stdin pipe in a per-run scratch
//! directory: file mode vs. a piped interactive session with the same options.

use crate::ast::*;
use crate::drive::*;
use crate::engine::{verif_root, Ctx, Meta, Prop, Tier, Violation};
use crate::gen::{reply_script, Gen, Knobs};
use crate::lockstep::{entry_order, shrink_prog_case, ProgCase};
use crate::prng::{fnv, Rng};
use crate::sess::{guarded, Op, Sess};
use abasic_core::{DiagnosticMessage, SourceFileAnalyzer};
use serde::{Deserialize, Serialize};
use std::io::Write;
use std::process::{Command, Stdio};

pub struct C15;

#[derive(Clone, Debug, Serialize, Deserialize)]
pub struct Case {
    pub prog: ProgCase,
    /// --warnings, --tracing, --skip-check
    pub opts: (bool, bool, bool),
    /// also run the real binary in both modes
    pub binary: bool,
    /// how many of the needed replies stdin provides before EOF (None = all)
    pub eof_after: Option<usize>,
    pub final_newline: bool,
    /// non-zero: lines carry blanks in front of the line number / behind the text (derived per line from
    /// this value)
    #[serde(default)]
    pub layout_seed: u64,
}

fn file_text(c: &Case) -> (String, Vec<String>) {
    let order = entry_order(c.prog.lines.len(), c.prog.order_seed);
    let mut lines: Vec<String> = order.iter().map(|i| print_line(&c.prog.lines[*i])).collect();
    let eol = "\n";
    if c.layout_seed != 0 {
        for (i, l) in lines.iter_mut().enumerate() {
            let h = crate::prng::fnv(format!("{}:{}", c.layout_seed, i).as_bytes());
            let lead = ["", "", " ", "  ", "\t", "    "][(h % 6) as usize];
            // (no blanks behind a line that ends in REM / DATA text or an open string: they would be text)
            let plain_end = !l.contains("REM") && !l.contains("DATA") && l.matches('"').count() % 2 == 0;
            let trail = if plain_end { ["", "", " ", "  "][((h >> 8) % 4) as usize] } else { "" };
            *l = format!("{lead}{l}{trail}");
        }
    }
    let mut text = lines.join(eol);
    if c.final_newline {
        text.push_str(eol);
    }
    (text, lines)
}

fn abasic_bin() -> String {
    std::env::var("VERIF_CLI_BIN").unwrap_or_else(|_| verif_root().join("target/repo/release/abasic").to_string_lossy().to_string())
}

struct ProcOut {
    stdout: String,
    stderr: String,
    code: Option<i32>,
}

fn run_cli(dir: &std::path::Path, args: &[String], stdin_text: &str) -> Result<ProcOut, String> {
    let mut child = Command::new(abasic_bin())
        .args(args)
        .current_dir(dir)
        .env("HOME", dir)
        .env("NO_COLOR", "1")
        .env("RUST_BACKTRACE", "0")
        .env_remove("CLICOLOR_FORCE")
        .stdin(Stdio::piped())
        .stdout(Stdio::piped())
        .stderr(Stdio::piped())
        .spawn()
        .map_err(|e| format!("cannot start {}: {e}", abasic_bin()))?;
    {
        let mut si = child.stdin.take().unwrap();
        let _ = si.write_all(stdin_text.as_bytes());
    }
    // bounded wait
    let start = std::time::Instant::now();
    loop {
        match child.try_wait() {
            Ok(Some(_)) => break,
            Ok(None) => {
                if start.elapsed().as_secs() > 20 {
                    let _ = child.kill();
                    let _ = child.wait();
                    return Err("abasic did not exit within 20 s".into());
                }
                std::thread::sleep(std::time::Duration::from_millis(1));
            }
            Err(e) => return Err(format!("{e}")),
        }
    }
    let out = child.wait_with_output().map_err(|e| format!("{e}"))?;
    Ok(ProcOut {
        stdout: String::from_utf8_lossy(&out.stdout).to_string(),
        stderr: String::from_utf8_lossy(&out.stderr).to_string(),
        code: out.status.code(),
    })
}

fn in_process(c: &Case, ctx: &mut Ctx) -> Result<Obs, Violation> {
    let v = |class: &str, fp: String, detail: String| Violation::new(&format!("C15/{class}"), fp, detail);
    let (text, lines) = file_text(c);
    // loader
    let t = text.clone();
    let loaded = guarded(move || SourceFileAnalyzer::analyze(t).into_interpreter()).map_err(|p| v("panic", format!("panic@{p}"), format!("loading the file unwound: {p}")))?;
    let mut a = Sess::from_interpreter(loaded);
    // prompt
    let mut b = Sess::new();
    for l in &lines {
        let r = b.apply(&Op::Line(l.clone())).ok_or_else(|| v("harness", "line".into(), l.clone()))?;
        if r.err().is_some() || r.panicked().is_some() {
            return Err(v("harness", "generated line rejected".into(), format!("{l}: {:?}", r.res)));
        }
    }
    let la = a.list().unwrap_or_default();
    let lb = b.list().unwrap_or_default();
    ctx.calls(lines.len() as u64 + 2);
    if la != lb {
        let k = la.iter().zip(lb.iter()).take_while(|(x, y)| x == y).count();
        return Err(v("listing-differs", format!("loaded {} typed {}", la.len(), lb.len()), format!("line {k}: loaded {:?} vs typed {:?}", la.get(k), lb.get(k))));
    }
    let replies: Vec<String> = c.prog.replies.iter().map(|r| r.text.clone()).collect();
    let mut run = |s: &mut Sess, ctx: &mut Ctx| -> Result<Obs, Violation> {
        s.apply(&Op::Flags(c.opts.1, c.opts.0));
        s.apply(&Op::Seed(c.prog.seed));
        let cfg = DriveCfg {
            replies: &replies,
            boundary_cap: c.prog.tick_cap,
            breaks: &[],
            at_stop: None,
            prop: "C15",
        };
        drive_run(s, Op::Line("RUN".into()), &cfg, ctx)
    };
    let oa = run(&mut a, ctx)?;
    let ob = run(&mut b, ctx)?;
    if let Some(x) = compare_obs("C15", "loaded", &oa, "typed", &ob, false, true) {
        return Err(x);
    }
    Ok(oa)
}

fn analyzer_has_errors(text: &str) -> bool {
    let t = text.to_string();
    guarded(move || {
        let a = SourceFileAnalyzer::analyze(t);
        a.messages().iter().any(|m| matches!(m, DiagnosticMessage::Error(..)))
    })
    .unwrap_or(true)
}

fn strip_file_mode_report(stderr: &str) -> String {
    stderr
        .lines()
        .filter(|l| !(l.starts_with("Warning on line ") || l.starts_with("Errors were encountered") || l.starts_with("Please fix the above errors")))
        .map(|l| format!("{l}\n"))
        .collect()
}

fn strip_banner(stdout: &str) -> String {
    let mut out = String::new();
    let mut skipped = 0;
    for l in stdout.split_inclusive('\n') {
        if skipped < 2 && (l.starts_with("Welcome to Atul's BASIC Interpreter") || l.starts_with("Press CTRL-C to exit.")) {
            skipped += 1;
            continue;
        }
        out.push_str(l);
    }
    out
}

fn binary_check(c: &Case, base: &Obs, ctx: &mut Ctx) -> Option<Violation> {
    let v = |class: &str, fp: String, detail: String| Some(Violation::new(&format!("C15/{class}"), fp, detail));
    let (text, lines) = file_text(c);
    // replies actually needed (from the in-process run); the program terminates within the cap
    let needed = base.requests as usize;
    let mut replies: Vec<String> = c.prog.replies.iter().map(|r| r.text.clone()).collect();
    while replies.len() < needed {
        replies.push("0".into());
    }
    replies.truncate(needed);
    if let Some(k) = c.eof_after {
        if k < replies.len() {
            replies.truncate(k);
            ctx.count("fault.eof_at_input");
        }
    }
    // replies must be single lines
    if replies.iter().any(|r| r.contains('\n')) {
        return None;
    }
    let dir = std::env::temp_dir().join(format!("abasic-sim-cli-{}-{}", std::process::id(), ctx.run));
    let _ = std::fs::remove_dir_all(&dir);
    if std::fs::create_dir_all(&dir).is_err() {
        return v("harness", "scratch dir".into(), format!("{:?}", dir));
    }
    let r = (|| {
        let path = dir.join("p.bas");
        std::fs::write(&path, &text).map_err(|e| format!("{e}"))?;
        let mut opts: Vec<String> = vec![];
        if c.opts.0 {
            opts.push("--warnings".into());
        }
        if c.opts.1 {
            opts.push("--tracing".into());
        }
        let skip = c.opts.2 || analyzer_has_errors(&text);
        let mut file_args = opts.clone();
        if skip {
            file_args.push("--skip-check".into());
        }
        file_args.push("p.bas".into());
        let reply_text: String = replies.iter().map(|r| format!("{r}\n")).collect();
        let f = run_cli(&dir, &file_args, &reply_text)?;
        let mut inter_in: String = lines.iter().map(|l| format!("{l}\n")).collect();
        inter_in.push_str("RUN\n");
        inter_in.push_str(&reply_text);
        let i = run_cli(&dir, &opts, &inter_in)?;
        Ok::<_, String>((f, i, file_args, opts))
    })();
    let _ = std::fs::remove_dir_all(&dir);
    let (f, i, file_args, opts) = match r {
        Ok(x) => x,
        Err(e) => return v("harness", "cli".into(), e),
    };
    ctx.calls(2);
    ctx.count(&format!("reach.cli.opts.w{}t{}s{}", c.opts.0 as u8, c.opts.1 as u8, c.opts.2 as u8));
    let fo = f.stdout.clone();
    let io = strip_banner(&i.stdout);
    let fe = strip_file_mode_report(&f.stderr);
    let ie = i.stderr.clone();
    let show = |s: &str| s.chars().take(400).collect::<String>();
    if fo != io {
        return v(
            "cli-stdout-differs",
            format!("trace={} warnings={}", c.opts.1, c.opts.0),
            format!("abasic {:?} stdout {:?}\nvs piped session {:?} stdout {:?}", file_args, show(&fo), opts, show(&io)),
        );
    }
    if fe != ie {
        return v(
            "cli-stderr-differs",
            format!("trace={} warnings={}", c.opts.1, c.opts.0),
            format!("abasic {:?} stderr {:?}\nvs piped session {:?} stderr {:?}", file_args, show(&fe), opts, show(&ie)),
        );
    }
    if f.code != i.code {
        return v("cli-exit-status-differs", format!("{:?} vs {:?}", f.code, i.code), format!("file mode exit {:?}, piped session exit {:?}", f.code, i.code));
    }
    if c.opts.0 && ie.contains("WARNING IN") {
        ctx.count("reach.cli.runtime_warning_in_both_modes");
    }
    if c.opts.1 && io.contains('#') {
        ctx.count("reach.cli.trace_in_both_modes");
    }
    None
}

impl Prop for C15 {
    const ID: &'static str = "C15";
    type Case = Case;

    fn meta() -> Meta {
        Meta {
            level: "exploration",
            rule: "Well-formed source files (every line numbered, non-empty, tokenizable; shuffled; with or without a final newline; one file in four with blanks/tabs in front of the line numbers and behind the text; one program in eight numbered from 63990 / 64000 / 2^32-6 / 10^15 / 2^64-2001 upwards) from the C03/C08 grammar (RND excluded for the binary runs: the CLI seeds from a clock). (a) in-process, every run: SourceFileAnalyzer::analyze(text).into_interpreter() vs. a fresh interpreter fed the same lines through start_evaluating: LIST equal, and RUN under the same flags, seed and reply script gives equal records, request positions, outcome and final probe snapshot. (b) 1 run in 12: the real abasic binary in a scratch HOME/cwd, `abasic OPTS p.bas < replies` vs. `abasic OPTS < lines+RUN+replies` for a PRNG-chosen combination of --warnings / --tracing / --skip-check (skip-check forced when the in-process analyzer reports an error, since file mode refuses such programs), with the reply stream cut at a PRNG-chosen point (EOF at an input request): stdout without the banner, stderr without the file-mode analyzer report, and the exit status must be identical. distinct_nontrivial = distinct (file text, options) hashes among runs whose in-process RUN took >= 5 boundaries.",
            real: &["abasic-core analyzer loader and Interpreter (in-process)", "abasic binary (abasic-cli, rustyline non-tty path, stdio printer) built from /repo, release profile"],
            stub: &["the terminal: scripted stdin with an EOF point", "file system content: one program file and HOME in a per-run scratch directory"],
            assumptions: &[
                "binary runs use programs that terminate within the in-process cap and never call RND (the CLI's clock-derived seed is not controlled)",
                "real signal delivery (Ctrl-C) to the binary is not simulated",
            ],
            reach: &["reach.cli.runtime_warning_in_both_modes", "reach.cli.trace_in_both_modes", "fault.eof_at_input", "reach.binary_compared"],
        }
    }

    fn runs(tier: Tier) -> u64 {
        match tier {
            Tier::Quick => 40_000,
            Tier::Thorough => 1_500_000,
        }
    }

    fn generate(rng: &mut Rng, ctx: &mut Ctx) -> Case {
        let binary = rng.chance(1, 12);
        let mut k = Knobs::swarm(rng);
        k.input = rng.chance(1, 2);
        k.stop = false;
        if binary {
            k.rnd = false;
            k.wild_goto_pct = 0;
        }
        k.max_lines = 3 + rng.usize(16);
        // any u64 is a line number on both paths: now and then the whole program sits far up
        if rng.chance(1, 8) {
            k.line_base = rng.pick(&[63_990u64, 64_000, 65_530, 4_294_967_290, 1_000_000_000_000_000, u64::MAX - 2_000]);
        }
        let mut grng = rng.fork();
        let (mut lines, info) = Gen::new(&mut grng, k.clone()).program();
        // a duplicated line number (last one wins in both paths)
        if rng.chance(1, 8) && !lines.is_empty() {
            let l = rng.pick(&lines);
            let mut g = Gen::new(rng, k.clone());
            let dup = Line { num: l.num, stmts: vec![g.tag()] };
            lines.push(dup);
        }
        let replies = reply_script(rng, info.inputs * 2 + 2);
        let prog = ProgCase {
            lines,
            order_seed: rng.next() | 1,
            seed: if binary { 0 } else { rng.below(1000) },
            replies,
            breaks: vec![],
            tracing: false,
            warnings: false,
            tick_cap: match ctx.tier {
                Tier::Quick => 600,
                Tier::Thorough => 2000,
            },
            await_breaks: vec![],
            stop_cmds: vec![],
            trace_via_command: false,
            reply_breaks: vec![],
        };
        Case {
            prog,
            opts: (rng.chance(1, 2), rng.chance(1, 2), rng.chance(1, 3)),
            binary,
            eof_after: if rng.chance(1, 3) { Some(rng.usize(2)) } else { None },
            final_newline: rng.chance(1, 2),
            layout_seed: if rng.chance(1, 4) { rng.next() | 2 } else { 0 },
        }
    }

    fn execute(c: &Case, ctx: &mut Ctx) -> Option<Violation> {
        let base = match in_process(c, ctx) {
            Ok(o) => o,
            Err(v) => return Some(v),
        };
        let (text, _) = file_text(c);
        if base.boundaries >= 5 {
            ctx.nontrivial(fnv(format!("{}{:?}", text, c.opts).as_bytes()));
        }
        if c.binary && !base.capped {
            // entry order with duplicates: the order of the file is the order of typing, fine
            ctx.count("reach.binary_compared");
            return binary_check(c, &base, ctx);
        }
        None
    }

    fn view(c: &Case) -> serde_json::Value {
        let (text, _) = file_text(c);
        serde_json::json!({"file": text, "replies": c.prog.replies.iter().map(|r| r.text.clone()).collect::<Vec<_>>(), "opts_warnings_tracing_skipcheck": c.opts, "binary_pair": c.binary, "eof_after_replies": c.eof_after})
    }

    fn shrink(c: &Case) -> Vec<Case> {
        let mut out = vec![];
        for p in shrink_prog_case(&c.prog) {
            let mut n = c.clone();
            n.prog = p;
            out.push(n);
        }
        if c.eof_after.is_some() {
            let mut n = c.clone();
            n.eof_after = None;
            out.push(n);
        }
        for o in [(false, c.opts.1, c.opts.2), (c.opts.0, false, c.opts.2), (c.opts.0, c.opts.1, false)] {
            if o != c.opts {
                let mut n = c.clone();
                n.opts = o;
                out.push(n);
            }
        }
        out
    }
}
