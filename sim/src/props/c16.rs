//! C16 — runtime state stays within its caps and obeys name-suffix typing.
//! An inductive invariant, read through the probe after EVERY host call of
//! PRNG-scheduled sessions that press on the caps.

use crate::engine::{shrink_vec, Ctx, Meta, Prop, Tier, Violation};
use crate::hostile::{boundary_statement, many_subscripts};
use crate::prng::{fnv_add, Rng};
use crate::props::c01::{shrink_text, statement};
use crate::sess::{Op, Res, Sess, St};
use abasic_core::{VerifProbe, VerifValue};
use serde::{Deserialize, Serialize};

pub struct C16;

#[derive(Clone, Debug, Serialize, Deserialize)]
pub struct Case {
    pub ops: Vec<Op>,
}

const LETTERS: &[&str] = &["C", "J", "K", "Q", "V", "W", "Y", "Z"];

fn name(i: usize) -> String {
    format!("{}{}", LETTERS[i / 8 % 8], LETTERS[i % 8])
}

/// programs that press on one cap each
fn pressure_program(rng: &mut Rng) -> Vec<String> {
    let mut l = vec![];
    match rng.below(14) {
        13 => {
            // a user-function call with exactly 31 / 32 frames already on the shared stack
            let d = rng.pick(&[32, 33]);
            l.push("10 DEF FNC(J) = J + 1".into());
            l.push(format!("20 C = C + 1 : IF C < {d} THEN GOSUB 20"));
            l.push("30 PRINT FNC(1)".into());
        }
        12 => {
            // more than 32 distinct inner loops abandoned one after the other by the outer NEXT / a new FOR:
            // at most two loops are ever open, so nothing may be refused
            let n = rng.pick(&[33usize, 36, 40]);
            let by_next = rng.chance(1, 2);
            for i in 1..=n {
                if by_next {
                    l.push(format!("{} FOR C = 1 TO 1 : FOR {} = 1 TO 2 : NEXT C", 10 * i, name(i)));
                } else {
                    l.push(format!("{} FOR C = 1 TO 1 : FOR {} = 1 TO 2", 10 * i, name(i)));
                }
            }
            l.push("9000 PRINT \"done\"".into());
        }
        0 => {
            // GOSUB recursion to depth d
            let d = rng.pick(&[31, 32, 33, 40]);
            l.push(format!("10 C = C + 1 : IF C < {d} THEN GOSUB 10"));
            l.push("20 PRINT C : RETURN".into());
        }
        1 => {
            // FN recursion
            l.push("10 DEF FNC(J) = FNC(J + 1) + 1".into());
            l.push("20 PRINT FNC(1)".into());
        }
        2 => {
            // FN recursion bounded just below / at / above the cap, under some GOSUB frames
            let d = rng.pick(&[28, 30, 31, 32]);
            l.push(format!("10 DEF FNC(J) = (J < {d}) * (FNC(J + 1) + 1)"));
            l.push("20 GOSUB 30 : END".into());
            l.push("30 GOSUB 40 : RETURN".into());
            l.push("40 PRINT FNC(1) : RETURN".into());
        }
        3 => {
            // n nested FORs over distinct variables
            let n = rng.pick(&[31usize, 32, 33, 34, 40]);
            for i in 0..n {
                l.push(format!("{} FOR {} = 1 TO 2", 10 + i, name(i)));
            }
            l.push(format!("{} PRINT \"in\"", 10 + n));
            for i in (0..n).rev() {
                l.push(format!("{} NEXT {}", 200 + (n - i), name(i)));
            }
        }
        4 => {
            // the same FOR re-entered by GOTO many times
            l.push("10 FOR Q = 1 TO 3".into());
            l.push("20 K = K + 1 : IF K < 3000 THEN 10".into());
            l.push("30 NEXT Q".into());
        }
        5 => {
            // loops abandoned by GOTO, NEXT of outer variables
            l.push("10 FOR C = 1 TO 3 : FOR J = 1 TO 3 : FOR K = 1 TO 3".into());
            l.push("20 W = W + 1 : IF W < 400 THEN GOTO 10".into());
            l.push("30 NEXT C".into());
            l.push("40 NEXT K".into());
        }
        6 => {
            let (a, b) = rng.pick(&[(9999u64, 0u64), (99, 99), (100, 99), (100, 100), (9998, 0), (10000, 0), (4294967295, 4294967295), (3037000499, 3037000499)]);
            l.push(format!("10 DIM C({a}, {b})"));
            l.push("20 C(1, 1) = 5 : PRINT C(1, 1)".into());
        }
        7 => {
            l.push(format!("10 {}", many_subscripts(rng)));
        }
        8 => {
            // ill-typed writes through every path
            let s = rng.pick(&[
                "10 C$ = 5",
                "10 C = \"x\"",
                "10 LET C(1) = \"x\"",
                "10 C$(1) = 5",
                "10 FOR C$ = 1 TO 3",
                "10 FOR C = \"a\" TO 3",
                "10 READ C : DATA hello",
                "10 READ C$ : DATA 5",
                "10 READ C(2) : DATA \"x\"",
                "10 INPUT C",
                "10 INPUT C$(2)",
                "10 DEF FNC(J$) = 1 : PRINT FNC(5)",
                "10 DEF FNC(J) = 1 : PRINT FNC(\"x\")",
                "10 DEF FNC(J, K$) = J : PRINT FNC(1, 2)",
                "10 C$ = \"a\" : NEXT C$",
                "10 DIM C$(3) : C$(1) = 1",
                "10 DIM C(3) : C(1) = \"x\"",
            ]);
            l.push(s.to_string());
            l.push("20 PRINT C; C$".into());
        }
        9 => {
            // mutual GOSUB without RETURN
            l.push("10 GOSUB 20".into());
            l.push("20 GOSUB 10".into());
        }
        10 => {
            // FOR inside recursion: loops and frames together
            l.push("10 FOR C = 1 TO 2 : GOSUB 10".into());
        }
        _ => {
            for i in 0..(3 + rng.usize(8)) {
                l.push(format!("{} {}", 10 * (i + 1), statement(rng)));
            }
        }
    }
    l
}

fn immediate(rng: &mut Rng) -> String {
    match rng.below(14) {
        0 => "RUN".into(),
        1 => "CONT".into(),
        2 => format!("FOR {} = 1 TO 3", name(rng.usize(40))),
        3 => format!("GOSUB {}", rng.pick(&[10, 20, 30, 40, 99])),
        4 => format!("NEXT {}", name(rng.usize(40))),
        5 => "RETURN".into(),
        6 => boundary_statement(rng),
        7 => many_subscripts(rng),
        8 => rng
            .pick(&["C$ = 5", "C = \"x\"", "C(1) = \"x\"", "C$(1) = 5", "FOR C$ = 1 TO 3", "DIM W(100, 100)", "DIM W$(9999)", "W$(5) = \"a\""])
            .to_string(),
        9 => format!("{} {}", 10 * (1 + rng.below(6)), statement(rng)),
        10 => format!("{}", 10 * (1 + rng.below(6))),
        11 => "PRINT FNC(1)".into(),
        _ => statement(rng),
    }
}

pub fn invariant(p: &VerifProbe) -> Option<(String, String)> {
    if p.stack.len() > 32 {
        return Some(("frames>32".into(), format!("{} frames", p.stack.len())));
    }
    if p.loops.len() > 32 {
        return Some(("loops>32".into(), format!("{} open loops", p.loops.len())));
    }
    if p.nesting_depth != 0 {
        // between two host calls no expression or statement is being evaluated
        return Some(("nesting-depth-leak".into(), format!("evaluation nesting depth is {} at a turn boundary", p.nesting_depth)));
    }
    for (i, l) in p.loops.iter().enumerate() {
        if p.loops[..i].iter().any(|o| o.symbol == l.symbol) {
            return Some(("two-loops-same-variable".into(), format!("loop stack {:?}", p.loops.iter().map(|l| &l.symbol).collect::<Vec<_>>())));
        }
        // (a loop entry for `C$` can exist after `FOR C$ = 1 TO 3` failed with TYPE MISMATCH: the
        // statement speaks about stored values, not about the loop table's names)
    }
    for a in &p.arrays {
        let prod: u128 = a.dimensions.iter().map(|d| *d as u128).product();
        if a.dimensions.is_empty() || prod != a.cell_count as u128 {
            return Some(("array-count-differs".into(), format!("{} dims {:?} cells {}", a.name, a.dimensions, a.cell_count)));
        }
        if a.cell_count > 10000 {
            return Some(("array>10000".into(), format!("{} has {} cells", a.name, a.cell_count)));
        }
        if a.is_string != a.name.ends_with('$') {
            return Some(("array-suffix-typing".into(), format!("{} is_string={}", a.name, a.is_string)));
        }
    }
    let bad = |n: &str, v: &VerifValue| matches!(v, VerifValue::Str(_)) != n.ends_with('$');
    for (n, v) in &p.variables {
        if bad(n, v) {
            return Some(("variable-suffix-typing".into(), format!("{} = {:?}", n, v)));
        }
    }
    for f in &p.stack {
        for (n, v) in &f.bindings {
            if bad(n, v) {
                return Some(("parameter-suffix-typing".into(), format!("{} = {:?}", n, v)));
            }
        }
    }
    None
}

struct Mon {
    /// what the tick about to be made will attempt, if it is an attempt to exceed a cap:
    /// (description, expected error kind)
    pending_attempt: Option<(String, &'static str)>,
    /// the tick about to be made executes a plain `FOR v = …` / `NEXT v` / `NEXT`:
    /// (is_for, variable, open loops before it)
    pending_loop: Option<(bool, Option<String>, Vec<String>)>,
    shape: u64,
    max_frames: usize,
    max_loops: usize,
    refused: u32,
    calls: u32,
}

fn after_call(s: &mut Sess, op: &Op, call: &crate::sess::Call, m: &mut Mon, ctx: &mut Ctx) -> Option<Violation> {
    let v = |class: &str, fp: String, detail: String| Some(Violation::new(&format!("C16/{class}"), fp, detail));
    if let Res::Panic(p) = &call.res {
        return v("panic", format!("panic@{p}"), format!("{:?} unwound: {p}", op));
    }
    m.calls += 1;
    // an attempt to exceed a cap must be refused with OUT OF MEMORY
    if let Some((what, kind)) = m.pending_attempt.take() {
        if matches!(op, Op::Tick) {
            let got = call.err().map(|e| e.kind.clone());
            if got.as_deref() != Some(kind) {
                return v(
                    "cap-attempt-not-refused",
                    format!("{what}: expected {kind}, got {:?}", got),
                    format!("{what}: the statement should be refused with {kind}, but the call gave {:?} (state {:?})", call.res, call.state),
                );
            }
            ctx.count("reach.cap_attempt_refused_as_expected");
        }
    }
    let p = s.probe(false);
    // abandoning or re-entering loops accumulates nothing: one FOR / NEXT statement turns the table of
    // open loops `before` into before[..i] (+ v), where i is v's position (or the end for a new v)
    if let Some((is_for, var, before)) = m.pending_loop.take() {
        if matches!(op, Op::Tick) && call.err().is_none() {
            let after: Vec<String> = p.loops.iter().map(|l| l.symbol.clone()).collect();
            let idx = match &var {
                Some(v) => before.iter().position(|b| b == v),
                None => before.len().checked_sub(1),
            };
            let name = var.clone().or_else(|| before.last().cloned());
            let ok = match (is_for, idx, &name) {
                (true, Some(i), Some(n)) => after.len() == i + 1 && after[..i] == before[..i] && &after[i] == n,
                (true, None, Some(n)) => after.len() == before.len() + 1 && after[..before.len()] == before[..] && &after[before.len()] == n,
                (false, Some(i), Some(n)) => (after.len() == i && after[..] == before[..i]) || (after.len() == i + 1 && after[..i] == before[..i] && &after[i] == n),
                _ => true, // NEXT with nothing open fails; not reached without an error
            };
            ctx.count(if is_for { "reach.loop_table_step_checked(FOR)" } else { "reach.loop_table_step_checked(NEXT)" });
            if before.len() >= 2 && idx.map(|i| i + 1 < before.len()).unwrap_or(false) {
                ctx.count("reach.loop_statement_abandons_inner_loops");
            }
            if !ok {
                return v(
                    "loop-table-accumulates",
                    format!("{} with {} open, {} after", if is_for { "FOR" } else { "NEXT" }, before.len(), after.len()),
                    format!("{} {:?}: open loops were {:?}, are now {:?}: loops inside the named one must be forgotten and nothing else touched", if is_for { "FOR" } else { "NEXT" }, var, before, after),
                );
            }
        }
    }
    // RUN starts with empty stacks: loops or frames abandoned by earlier activity do not pile up
    // across runs (the one statement RUN itself executes can open at most one of each)
    if matches!(op, Op::Line(t) if t.trim().eq_ignore_ascii_case("RUN")) && call.err().is_none() {
        ctx.count("reach.stacks_checked_after_RUN");
        if p.loops.len() > 1 || p.stack.len() > 1 {
            return v(
                "stale-stacks-after-run",
                format!("loops={} frames={}", p.loops.len(), p.stack.len()),
                format!("right after RUN there are {} open loops {:?} and {} frames: state abandoned before the run accumulates", p.loops.len(), p.loops.iter().map(|l| &l.symbol).collect::<Vec<_>>(), p.stack.len()),
            );
        }
    }
    if call.state == St::Running && p.location.1 < p.line_tokens.len() {
        let t = &p.line_tokens[p.location.1];
        let tok = |k: usize| p.line_tokens.get(p.location.1 + k).map(|x| x.as_str());
        let is_ident = |x: &str| x.chars().next().map(|c| c.is_ascii_alphabetic()).unwrap_or(false) && x.chars().all(|c| c.is_ascii_alphanumeric() || c == '$');
        let open: Vec<String> = p.loops.iter().map(|l| l.symbol.clone()).collect();
        if t == "FOR" && tok(2) == Some("=") && tok(1).map(is_ident).unwrap_or(false) {
            m.pending_loop = Some((true, tok(1).map(|x| x.to_string()), open));
        } else if t == "NEXT" && matches!(tok(1), None | Some(":")) {
            m.pending_loop = Some((false, None, open));
        } else if t == "NEXT" && tok(1).map(is_ident).unwrap_or(false) && matches!(tok(2), None | Some(":")) {
            m.pending_loop = Some((false, tok(1).map(|x| x.to_string()), open));
        }
        if t == "GOSUB" && p.stack.len() == 32 && p.line_tokens.get(p.location.1 + 1).map(|x| x.parse::<f64>().is_ok()).unwrap_or(false) {
            m.pending_attempt = Some((format!("GOSUB with 32 frames on the stack (line {:?})", p.location.0), "OutOfMemory(StackOverflow)"));
        } else if t == "PRINT"
            && p.stack.len() == 32
            && tok(1).map(|x| x.starts_with("FN")).unwrap_or(false)
            && tok(2) == Some("(")
            && tok(3).map(|x| x.parse::<f64>().is_ok()).unwrap_or(false)
            && tok(4) == Some(")")
            && matches!(tok(5), None | Some(":"))
            && p.functions.iter().any(|f| Some(f.name.as_str()) == tok(1) && f.arguments.len() == 1 && !f.arguments[0].ends_with('$'))
        {
            m.pending_attempt = Some((format!("call of {} with 32 frames on the stack (line {:?})", tok(1).unwrap_or(""), p.location.0), "OutOfMemory(StackOverflow)"));
        } else if t == "DIM" {
            // DIM name ( n1 , n2 ... ) with plain numerals whose product of (n+1) exceeds 10000, name not yet an array
            let toks = &p.line_tokens[p.location.1..];
            if toks.len() >= 5 && toks[2] == "(" && !p.arrays.iter().any(|a| a.name == toks[1]) {
                let mut k = 3;
                let mut prod: f64 = 1.0;
                let mut ok = true;
                loop {
                    match toks.get(k).and_then(|x| x.parse::<f64>().ok()) {
                        Some(n) if n >= 0.0 && n.fract() == 0.0 => prod *= n + 1.0,
                        _ => {
                            ok = false;
                            break;
                        }
                    }
                    match toks.get(k + 1).map(|x| x.as_str()) {
                        Some(",") => k += 2,
                        Some(")") => {
                            ok = matches!(toks.get(k + 2).map(|x| x.as_str()), None | Some(":"));
                            break;
                        }
                        _ => {
                            ok = false;
                            break;
                        }
                    }
                }
                if ok && prod > 10000.0 {
                    m.pending_attempt = Some((format!("DIM {} with {} cells (line {:?})", toks[1], prod, p.location.0), "OutOfMemory(ArrayTooLarge)"));
                }
            }
        } else if t == "FOR" && p.loops.len() == 32 {
            // only when the bounds are plain numerals: then nothing can fail before the push is attempted
            let lit = |k: usize| p.line_tokens.get(p.location.1 + k).map(|x| x.parse::<f64>().is_ok()).unwrap_or(false);
            let plain = p.line_tokens.get(p.location.1 + 2).map(|x| x == "=").unwrap_or(false)
                && lit(3)
                && p.line_tokens.get(p.location.1 + 4).map(|x| x == "TO").unwrap_or(false)
                && lit(5)
                && matches!(p.line_tokens.get(p.location.1 + 6).map(|x| x.as_str()), None | Some(":"));
            if let (true, Some(var)) = (plain, p.line_tokens.get(p.location.1 + 1)) {
                if !p.loops.iter().any(|l| &l.symbol == var) {
                    m.pending_attempt = Some((format!("FOR {var} with 32 open loops (line {:?})", p.location.0), "OutOfMemory(StackOverflow)"));
                }
            }
        }
    }
    m.max_frames = m.max_frames.max(p.stack.len());
    m.max_loops = m.max_loops.max(p.loops.len());
    fnv_add(&mut m.shape, &[p.stack.len() as u8, p.loops.len() as u8, p.arrays.len() as u8, call.state as u8]);
    ctx.state(crate::prng::fnv(format!("{}|{}|{:?}|{}", p.stack.len(), p.loops.len(), p.arrays.iter().map(|a| (&a.name, &a.dimensions)).collect::<Vec<_>>(), p.variables.len()).as_bytes()));
    if let Some((fp, detail)) = invariant(&p) {
        return v("invariant", fp, format!("after {:?}: {}", op, detail));
    }
    if let Some(e) = call.err() {
        if e.kind.starts_with("OutOfMemory") {
            m.refused += 1;
            ctx.count(&format!("reach.refused.{}", e.kind));
            if call.state != St::Idle {
                return v("refusal-not-idle", e.kind.clone(), format!("{} left state {:?}", e.text, call.state));
            }
            // leaves the interpreter usable
            let c = s.apply(&Op::Line("REM".into()));
            if let Some(c) = c {
                if !matches!(c.res, Res::Ok) || c.state != St::Idle {
                    return v("unusable-after-refusal", e.kind.clone(), format!("after {}: REM gave {:?}", e.text, c.res));
                }
            }
        }
    }
    None
}

impl Prop for C16 {
    const ID: &'static str = "C16";
    type Case = Case;

    fn meta() -> Meta {
        Meta {
            level: "exploration",
            rule: "Each run is a host session: a cap-pressure program (GOSUB recursion to 31/32/33/40, FN recursion unbounded and bounded at 28-32 under GOSUB frames, 31-40 nested FORs over distinct variables, the same FOR re-entered by GOTO 3000 times, loops abandoned by GOTO with NEXT of outer variables, DIM with products 9999/10000/10001/overflowing, 1-25 subscripts, ill-typed writes through LET / FOR / NEXT / READ / INPUT / parameter binding / implicit array creation / cell writes, or random statements) is entered and run, interleaved by a PRNG scheduler with breaks, CONT, replies, immediate FOR/GOSUB/NEXT/RETURN/DIM, boundary statements and line edits, all protocol-legal in the live state. After EVERY host call the probe snapshot must satisfy: <= 32 frames; <= 32 open loops with pairwise distinct variables; every array has cell count == product of dimensions <= 10000 and element kind matching its `$` suffix; every variable and every frame binding holds a string iff its name ends in `$`. One plain FOR v / NEXT v / NEXT turns the table of open loops `before` into before[..i] (+ v) and touches nothing else (no accumulation). An attempt to exceed a cap with literal operands (GOSUB or a user-function call at 32 frames, FOR of a new variable at 32 loops, DIM of > 10000 cells) must be refused. Right after a successful RUN call at most one loop and one frame exist. A refused push must be an OUT OF MEMORY error, leave the state Idle and a REM line must be accepted afterwards. distinct_nontrivial = distinct (frames, loops, arrays, state) trajectory hashes among sessions that reached >= 2 frames or >= 2 loops or a refusal; distinct_states = distinct (frames, loops, array shapes, #variables) snapshots.",
            real: &["abasic-core Interpreter (stack / loop_stack caps, DimArray::new, Variables::set and Arrays type validation)"],
            stub: &["the host"],
            assumptions: &["internal state is read through the read-only probe hook (cfg abasic_verif)"],
            reach: &[
                "reach.refused.OutOfMemory(StackOverflow)",
                "reach.refused.OutOfMemory(ArrayTooLarge)",
                "reach.frames==32",
                "reach.loops==32",
                "reach.array_cells==10000",
            ],
        }
    }

    fn runs(tier: Tier) -> u64 {
        match tier {
            Tier::Quick => 30_000,
            Tier::Thorough => 2_000_000,
        }
    }

    fn generate(_rng: &mut Rng, _ctx: &mut Ctx) -> Case {
        unreachable!()
    }

    fn run_fresh(rng: &mut Rng, ctx: &mut Ctx) -> (Case, Option<Violation>) {
        let mut s = Sess::new();
        let mut ops = vec![];
        let mut m = Mon {
            pending_attempt: None,
            pending_loop: None,
            shape: 0xcbf29ce484222325,
            max_frames: 0,
            max_loops: 0,
            refused: 0,
            calls: 0,
        };
        let mut script: Vec<Op> = pressure_program(rng).into_iter().map(Op::Line).collect();
        script.push(Op::Line("RUN".into()));
        script.reverse();
        let max_ops = 40 + rng.usize(400);
        let break_pct = rng.pick(&[0u64, 1, 3, 10]);
        let mut violation = None;
        for _ in 0..max_ops {
            let st = s.state();
            let op = if st == St::Idle && !script.is_empty() {
                script.pop().unwrap()
            } else {
                match st {
                    St::NewReq => Op::Replace,
                    St::Running => {
                        if rng.below(100) < break_pct {
                            Op::Break
                        } else if rng.chance(1, 3) {
                            Op::Settle(1 + rng.below(200) as u32)
                        } else {
                            Op::Tick
                        }
                    }
                    St::Awaiting => {
                        if rng.chance(1, 8) {
                            Op::Break
                        } else {
                            Op::Reply(rng.pick(&["5", "hello", "", "\"x\"", "1,2"]).to_string())
                        }
                    }
                    St::Idle => {
                        if rng.chance(1, 25) {
                            let mut p: Vec<Op> = pressure_program(rng).into_iter().map(Op::Line).collect();
                            p.push(Op::Line("RUN".into()));
                            p.reverse();
                            script = p;
                            continue;
                        }
                        Op::Line(immediate(rng))
                    }
                }
            };
            match (&op, st) {
                (Op::Break, St::Running) => ctx.count("fault.break@running"),
                (Op::Break, _) => ctx.count("fault.break@awaiting"),
                (Op::Reply(_), _) => ctx.count("fault.reply"),
                (Op::Line(t), _) if t == "CONT" => ctx.count("fault.cont"),
                (Op::Line(t), _) if t == "RUN" => ctx.count("fault.run"),
                (Op::Line(t), _) if t.starts_with(|c: char| c.is_ascii_digit()) => ctx.count("fault.edit"),
                (Op::Line(_), _) => ctx.count("fault.immediate_statement"),
                _ => {}
            }
            ops.push(op.clone());
            let risky = matches!(&op, Op::Line(t) if t.contains("DIM") || t.matches(',').count() >= 3 || t.len() > 600);
            if ctx.announce_all || risky {
                ctx.announce(&Case { ops: ops.clone() });
            }
            // Settle hides intermediate boundaries: expand it into ticks so every boundary is probed
            let singles: Vec<Op> = match &op {
                Op::Settle(n) => vec![Op::Tick; *n as usize],
                o => vec![o.clone()],
            };
            for o in singles {
                let Some(call) = s.apply(&o) else { break };
                ctx.calls(1);
                if let Some(v) = after_call(&mut s, &o, &call, &mut m, ctx) {
                    violation = Some(v);
                    break;
                }
                if call.err().is_some() {
                    break;
                }
            }
            if violation.is_some() {
                break;
            }
        }
        if m.max_frames == 32 {
            ctx.count("reach.frames==32");
        }
        if m.max_loops == 32 {
            ctx.count("reach.loops==32");
        }
        if s.probe(false).arrays.iter().any(|a| a.cell_count == 10000) {
            ctx.count("reach.array_cells==10000");
        }
        if m.max_frames >= 2 || m.max_loops >= 2 || m.refused > 0 {
            ctx.nontrivial(m.shape);
        }
        (Case { ops }, violation)
    }

    fn execute(c: &Case, ctx: &mut Ctx) -> Option<Violation> {
        let mut s = Sess::new();
        let mut m = Mon {
            pending_attempt: None,
            pending_loop: None,
            shape: 0,
            max_frames: 0,
            max_loops: 0,
            refused: 0,
            calls: 0,
        };
        for op in &c.ops {
            let singles: Vec<Op> = match op {
                Op::Settle(n) => vec![Op::Tick; *n as usize],
                o => vec![o.clone()],
            };
            for o in singles {
                let Some(call) = s.apply(&o) else { break };
                ctx.calls(1);
                if let Some(v) = after_call(&mut s, &o, &call, &mut m, ctx) {
                    return Some(v);
                }
                if call.err().is_some() {
                    break;
                }
            }
        }
        None
    }

    fn shrink(c: &Case) -> Vec<Case> {
        let mut out: Vec<Case> = shrink_vec(&c.ops).into_iter().map(|ops| Case { ops }).collect();
        for (i, op) in c.ops.iter().enumerate() {
            if let Op::Line(t) = op {
                for t2 in shrink_text(t) {
                    let mut ops = c.ops.clone();
                    ops[i] = Op::Line(t2);
                    out.push(Case { ops });
                }
            }
            if let Op::Settle(n) = op {
                if *n > 1 {
                    let mut ops = c.ops.clone();
                    ops[i] = Op::Settle(n / 2);
                    out.push(Case { ops });
                }
            }
        }
        out
    }
}
