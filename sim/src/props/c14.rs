//! C14 — LIST output reloads to the same program.
//! abasic has no SAVE: the listing is the only durable form of a program. The
//! fault is a restart: take LIST, start a fresh interpreter, type the listing
//! back in, and continue; nothing observable may change.

use crate::ast::print_line;
use crate::drive::*;
use crate::engine::{shrink_vec, Ctx, Meta, Prop, Tier, Violation};
use crate::gen::{reply_script, Gen, Knobs};
use crate::hostile::{long_numeral, IDENTS, KEYWORDS, PUNCT};
use crate::prng::{fnv, Rng};
use crate::props::c01::shrink_text;
use crate::sess::{Op, Rec, Res, Sess, St};
use serde::{Deserialize, Serialize};

pub struct C14;

#[derive(Clone, Debug, Serialize, Deserialize)]
pub struct Case {
    /// raw line texts, entered in order
    pub lines: Vec<String>,
    pub seed: u64,
    pub replies: Vec<String>,
    /// restart again from the restarted interpreter's own listing (second generation)
    pub generations: u32,
}

fn numeral(rng: &mut Rng) -> String {
    numeral_after(rng, false)
}

/// `after_identifier`: the numeral will directly follow an identifier. Exactly that position never
/// gets a zero-valued fraction (`.0`, `12.00`): an identifier directly followed by one is the recorded
/// known finding of this property, pinned by its own input in known_findings.json.
fn numeral_after(rng: &mut Rng, after_identifier: bool) -> String {
    let mut n = numeral_raw(rng);
    if after_identifier {
        if let Some(i) = n.find('.') {
            if n[i + 1..].chars().all(|c| c == '0') {
                n.push('5');
            }
        }
    }
    n
}

fn numeral_raw(rng: &mut Rng) -> String {
    match rng.below(11) {
        10 => rng.pick(&[".0", "0.0", "10.0", ".00"]).to_string(),
        0 => ".5".into(),
        1 => "007".into(),
        2 => "1.".into(),
        3 => long_numeral(rng),
        4 => "0.1".into(),
        5 => format!("{}", rng.below(1000)),
        6 => "12345678901234567890".into(),
        7 => "00.500".into(),
        8 => format!("{}.{}", rng.below(100), rng.below(100)),
        _ => "3".into(),
    }
}

fn data_item(rng: &mut Rng) -> String {
    match rng.below(24) {
        16 => "-0.5".into(),
        17 => "-.25".into(),
        18 => "\"INF\"".into(),
        19 => "\"nan\"".into(),
        20 => "\"Infinity\"".into(),
        21 => "NaN".into(),
        22 => "+7".into(),
        23 => "\"-3\"".into(),
        0 => "hello".into(),
        1 => "\"quoted, with: stuff\"".into(),
        2 => "5".into(),
        3 => "".into(),
        4 => "hello \"there\"".into(),
        5 => "  padded  ".into(),
        6 => "\" kept \"".into(),
        7 => "\"\"".into(),
        8 => "-3.5".into(),
        9 => "007".into(),
        10 => "é日本".into(),
        11 => "\"12\"".into(),
        12 => "1e3".into(),
        13 => "a\"b".into(),
        14 => "inf".into(),
        _ => "x y z".into(),
    }
}

fn data_stmt(rng: &mut Rng) -> String {
    let n = rng.usize(5);
    let items: Vec<String> = (0..n).map(|_| data_item(rng)).collect();
    // (blanks that only Unicode calls blank — NBSP, ideographic space, VT — are text to BASIC)
    let sep = rng.pick(&[",", ", ", " , ", ",", ",\u{a0}", ", \u{3000}", "\u{b},"]);
    let mut s = format!("DATA{}{}", rng.pick(&[" ", "", "  ", " \u{a0}", "\u{3000}"]), items.join(sep));
    match rng.below(5) {
        0 => s.push_str(" : PRINT 1"),
        1 => s.push_str(":PRINT 2"),
        2 => s.push_str(" :"),
        _ => {}
    }
    s
}

fn token(rng: &mut Rng, after_identifier: bool) -> String {
    match rng.below(15) {
        // spellings that are one numeral in other dialects (exponents, type suffixes, radix prefixes) and, in the
        // pinned one, a numeral glued to an identifier or an illegal character: whatever they tokenize to, the
        // listing must read back as the same tokens
        14 => rng
            .pick(&["1E5", "1E2E5", "1.5E-3", "2E", ".1e10", "1E+2", "1D5", "12E", "1E2.5", "3E5X", "1.E1", "1e2e3", "5E 2", "1E-", "7E+", "1EE2", "0E0", "1E5$", "9E9("])
            .to_string(),
        0..=3 => rng.pick(KEYWORDS).to_string(),
        4..=6 => rng.pick(PUNCT).to_string(),
        7..=8 => rng.pick(IDENTS).to_string(),
        9 => rng.pick(&["SCORE", "TOTAL", "A$B", "XIF", "FNX", "N1", "B2$", "NOTE", "ORB", "ANDY"]).to_string(),
        10 => numeral_after(rng, after_identifier),
        11 => format!("\"{}\"", rng.pick(&["", "A", "a", "hi there", "Hi There", "HI THERE", "é", "a:b,c", "REM", "rem", "日本"])),
        12 => "(".into(),
        _ => ")".into(),
    }
}

/// text for string literals and quoted DATA items: everything that a renderer which "tidies" blanks or
/// escapes characters would change
const TRICKY_TEXT: &[&str] = &[
    "NAME ; SCORE , LEVEL",
    "F ( X )",
    "ONE , TWO",
    "a ) b ( c",
    "tab\there",
    "back\\slash C:\\GAMES",
    "  lead",
    "trail  ",
    "x  y   z",
    "THEN ELSE : REM not a remark",
    "1 + 1 = 2",
    "é ; 日本 , 💥 )",
    "it's",
    "combining e\u{301}",
    "zero\u{200b}width",
    "ctrl\u{1}\u{7f}",
    "( ( ; ; , , ) )",
];

fn stress_line(rng: &mut Rng) -> String {
    match rng.below(10) {
        8 => format!("PRINT \"{}\"", rng.pick(TRICKY_TEXT)),
        9 => format!("DATA \"{}\", \"{}\"", rng.pick(TRICKY_TEXT), rng.pick(TRICKY_TEXT)),
        0..=1 => data_stmt(rng),
        2 => format!("REM{}", rng.pick(&[" note", "", "ark", " é : PRINT 1", "  two  blanks", "\"quote"])),
        3 => format!("PRINT {} : {}", numeral(rng), data_stmt(rng)),
        _ => {
            let n = 1 + rng.usize(8);
            let mut out = String::new();
            for _ in 0..n {
                // does the text so far end in an identifier character (blanks are insignificant)?
                let after_ident = out.trim_end().chars().last().map(|c| c.is_ascii_alphanumeric()).unwrap_or(false)
                    && out.trim_end().chars().rev().take_while(|c| c.is_ascii_alphanumeric()).any(|c| c.is_ascii_alphabetic());
                out.push_str(&token(rng, after_ident));
                if rng.chance(1, 2) {
                    out.push_str(rng.pick(&[" ", "  ", "\t"]));
                }
            }
            if rng.chance(1, 6) {
                out.push_str(&format!(" : {}", data_stmt(rng)));
            }
            out
        }
    }
}

fn enter_all(s: &mut Sess, lines: &[String], ctx: &mut Ctx) -> Result<u32, Violation> {
    let mut stored = 0;
    for l in lines {
        let Some(c) = s.apply(&Op::Line(l.clone())) else { continue };
        ctx.calls(1);
        if let Some(p) = c.panicked() {
            return Err(Violation::new("C14/panic", format!("panic@{p}"), format!("entering `{l}` unwound: {p}")));
        }
        if matches!(c.res, Res::Ok) {
            stored += 1;
        }
        // a line without a number runs as an immediate statement: bring the session back to idle
        let mut n = 0;
        while s.state() == St::Running && n < 50 {
            s.apply(&Op::Tick);
            n += 1;
        }
        match s.state() {
            St::Running | St::Awaiting => {
                s.apply(&Op::Break);
            }
            St::NewReq => {
                s.apply(&Op::Replace);
            }
            St::Idle => {}
        }
    }
    Ok(stored)
}

fn read_all_data(s: &mut Sess, ctx: &mut Ctx) -> Result<Vec<String>, Violation> {
    let mut items = vec![];
    s.line_and_settle("RESTORE", 5);
    for _ in 0..80 {
        let calls = s.line_and_settle("READ Q$ : PRINT \"<\"; Q$; \">\"", 10);
        ctx.calls(calls.len() as u64);
        let mut done = false;
        for c in &calls {
            if let Some(p) = c.panicked() {
                return Err(Violation::new("C14/panic", format!("panic@{p}"), format!("READ probe unwound: {p}")));
            }
            if c.err().is_some() {
                done = true;
            }
            for r in &c.recs {
                if let Rec::Print(t) = r {
                    items.push(t.clone());
                }
            }
        }
        if done {
            break;
        }
    }
    Ok(items)
}

fn check(c: &Case, ctx: &mut Ctx) -> Option<Violation> {
    let v = |class: &str, fp: String, detail: String| Some(Violation::new(&format!("C14/{class}"), fp, detail));
    let mut u = Sess::new();
    let stored = match enter_all(&mut u, &c.lines, ctx) {
        Ok(n) => n,
        Err(e) => return Some(e),
    };
    let l1 = u.list()?;
    let mut prev_listing = l1.clone();
    let mut r = Sess::new();
    for g in 0..c.generations.max(1) {
        // ---- the fault: restart from the listing
        r = Sess::new();
        ctx.count("fault.restart_from_listing");
        for line in &prev_listing {
            let text = line.strip_suffix('\n').unwrap_or(line);
            let call = r.apply(&Op::Line(text.to_string()))?;
            ctx.calls(1);
            if let Some(p) = call.panicked() {
                return v("panic", format!("panic@{p}"), format!("re-entering listed line `{text}` unwound: {p}"));
            }
            if !matches!(call.res, Res::Ok) || call.state != St::Idle || !call.recs.is_empty() {
                return v(
                    "listed-line-rejected",
                    format!("{:?}", call.err().map(|e| e.kind.clone())),
                    format!("generation {g}: listed line `{text}` is not accepted back: {:?} {:?}", call.res, call.recs),
                );
            }
        }
        let l2 = r.list()?;
        if l2 != prev_listing {
            let k = l2.iter().zip(prev_listing.iter()).take_while(|(a, b)| a == b).count();
            return v(
                "listing-not-fixed-point",
                fixed_point_shape(prev_listing.get(k), l2.get(k)),
                format!("generation {g}: line {k}: listed {:?} reloads and lists as {:?}", prev_listing.get(k), l2.get(k)),
            );
        }
        prev_listing = l2;
    }
    if stored >= 2 {
        ctx.nontrivial(fnv(format!("{:?}", l1).as_bytes()));
    }
    // ---- identical behaviour from here on
    let run = |s: &mut Sess, ctx: &mut Ctx| -> Result<Obs, Violation> {
        s.apply(&Op::Seed(c.seed));
        let cfg = DriveCfg {
            replies: &c.replies,
            boundary_cap: 400,
            breaks: &[],
            at_stop: None,
            prop: "C14",
        };
        drive_run(s, Op::Line("RUN".into()), &cfg, ctx)
    };
    let ou = match run(&mut u, ctx) {
        Ok(o) => o,
        Err(e) => return Some(e),
    };
    let or = match run(&mut r, ctx) {
        Ok(o) => o,
        Err(e) => return Some(e),
    };
    if let Some(x) = compare_obs("C14", "original", &ou, "restarted", &or, false, false) {
        return Some(x);
    }
    for s in [&mut u, &mut r] {
        match s.state() {
            St::Running | St::Awaiting => {
                s.apply(&Op::Break);
            }
            _ => {}
        }
    }
    let du = match read_all_data(&mut u, ctx) {
        Ok(d) => d,
        Err(e) => return Some(e),
    };
    let dr = match read_all_data(&mut r, ctx) {
        Ok(d) => d,
        Err(e) => return Some(e),
    };
    if !du.is_empty() {
        ctx.count("reach.data_items_compared");
    }
    if du != dr {
        let k = du.iter().zip(dr.iter()).take_while(|(a, b)| a == b).count();
        return v(
            "data-sequence-differs",
            format!("original {} items restarted {}", du.len(), dr.len()),
            format!("DATA item {k}: original {:?} vs restarted {:?} (listing {:?})", du.get(k), dr.get(k), l1),
        );
    }
    None
}

fn fixed_point_shape(a: Option<&String>, b: Option<&String>) -> String {
    let (Some(a), Some(b)) = (a, b) else { return "line count".into() };
    let wa: Vec<&str> = a.trim_end().split(' ').collect();
    let wb: Vec<&str> = b.trim_end().split(' ').collect();
    let k = wa.iter().zip(wb.iter()).take_while(|(x, y)| x == y).count();
    let ident = |w: &str| w.chars().next().map(|c| c.is_ascii_alphabetic()).unwrap_or(false) && w.chars().all(|c| c.is_ascii_alphanumeric());
    if k < wa.len() && k + 1 < wa.len() && k < wb.len() && ident(wa[k]) && wa[k + 1] == "0" && wb[k].starts_with(&format!("{}0", wa[k])) {
        return "identifier followed by the numeral .0".into();
    }
    let data_at = wa.iter().position(|w| *w == "DATA");
    if let Some(d) = data_at {
        if k > d {
            return "DATA".into();
        }
    }
    format!("tokens: `{}` vs `{}`", wa.get(k).unwrap_or(&""), wb.get(k).unwrap_or(&"")).chars().take(60).collect()
}

impl Prop for C14 {
    const ID: &'static str = "C14";
    type Case = Case;

    fn meta() -> Meta {
        Meta {
            level: "exploration",
            rule: "Sessions build a program from (a) grammar-generated lines (C03 generator with INPUT/STOP) and (b) a listing-stress pool: random token sequences over all keyword / punctuation / identifier spellings with random or no blanks, numerals spelled .5 007 1. 00.500 20-400 digits, keywords embedded in identifiers, string literals with multi-byte text, REM with arbitrary text, DATA with quoted / unquoted / numeric / empty items, items containing quotes, blanks (also NBSP / U+3000 / VT) around items, text that a tidying or escaping renderer would change inside string literals and quoted items, DATA ... : stmt; one session in four then RUNs the program (cut after 50 turns) and deletes / replaces / adds 1-3 lines. Then the restart fault fires (1-2 generations): LIST, fresh interpreter, every listed line typed back in. Oracle: every listed line is accepted; LIST of the restarted interpreter equals the listing it was built from (fixed point); from then on RUN with the same seed and reply script produces identical records, requests and outcome on the original and the restarted interpreter, and an immediate READ loop sees the identical sequence of DATA items. distinct_nontrivial = distinct listings with >= 2 stored lines.",
            real: &["abasic-core tokenizer, Token Display (LIST renderer), DATA parser and renderer, Interpreter"],
            stub: &["the host (types the listing back in)"],
            assumptions: &["coverage of 'every token kind in every adjacency, numerals in every spelling' is by per-run sampling of the stress pool, not by enumeration"],
            reach: &["fault.restart_from_listing", "reach.data_items_compared"],
        }
    }

    fn runs(tier: Tier) -> u64 {
        match tier {
            Tier::Quick => 100_000,
            Tier::Thorough => 4_000_000,
        }
    }

    fn generate(rng: &mut Rng, _ctx: &mut Ctx) -> Case {
        let mut lines = vec![];
        let mut replies = vec![];
        if rng.chance(2, 3) {
            let mut k = Knobs::swarm(rng);
            k.input = rng.chance(1, 2);
            k.stop = rng.chance(1, 3);
            k.max_lines = 3 + rng.usize(12);
            let mut grng = rng.fork();
            let (prog, info) = Gen::new(&mut grng, k).program();
            lines.extend(prog.iter().map(print_line));
            replies = reply_script(rng, info.inputs + 1).into_iter().map(|r| r.text).collect();
        }
        let n = rng.usize(10);
        for _ in 0..n {
            let num = match rng.below(6) {
                0 => rng.below(5),
                1 => 10 * rng.below(40),
                _ => rng.below(400),
            };
            let at = rng.usize(lines.len() + 1);
            lines.insert(at, format!("{}{}{}", num, rng.pick(&[" ", "", "  "]), stress_line(rng)));
        }
        if rng.chance(1, 4) {
            // the stored program may be the result of a session, not only of typing lines in: run it
            // (READs happen, the run is cut after 50 turns), then delete / replace / add lines. What LIST
            // shows afterwards must still reload to a program that behaves like the one in this session.
            let nums: Vec<u64> = lines
                .iter()
                .filter_map(|l| l.trim_start().split(|c: char| !c.is_ascii_digit()).next().and_then(|d| d.parse::<u64>().ok()))
                .collect();
            lines.push("RUN".to_string());
            for _ in 0..1 + rng.usize(3) {
                let n = if nums.is_empty() || rng.chance(1, 5) { rng.below(400) } else { rng.pick(&nums) };
                lines.push(match rng.below(5) {
                    0..=1 => format!("{n}"),
                    2 => format!("{n} PRINT \"r{}\"", rng.below(100)),
                    3 => format!("{n} DATA {}, \"d{}\"", rng.below(100), rng.below(100)),
                    _ => format!("{n} READ Q9$ : PRINT Q9$"),
                });
            }
        }
        Case {
            lines,
            seed: rng.below(100),
            replies,
            generations: 1 + rng.below(2) as u32,
        }
    }

    fn execute(c: &Case, ctx: &mut Ctx) -> Option<Violation> {
        check(c, ctx)
    }

    fn shrink(c: &Case) -> Vec<Case> {
        let mut out = vec![];
        for l in shrink_vec(&c.lines) {
            let mut n = c.clone();
            n.lines = l;
            out.push(n);
        }
        for (i, l) in c.lines.iter().enumerate() {
            for t in shrink_text(l) {
                let mut n = c.clone();
                n.lines[i] = t;
                out.push(n);
            }
        }
        if c.generations > 1 {
            let mut n = c.clone();
            n.generations = 1;
            out.push(n);
        }
        out
    }
}
