//! C11 — editing the program invalidates every runtime reference into it.
//! The run is suspended at a boundary (break, STOP, pending input, completion,
//! failure), one edit is applied, then one probe command is issued.

use crate::ast::*;
use crate::drive::*;
use crate::engine::{Ctx, Meta, Prop, Tier, Violation};
use crate::gen::{reply_script, Gen, Knobs, NUM_VARS};
use crate::lockstep::{enter_program, shrink_prog_case, ProgCase};
use crate::prng::{fnv, Rng};
use crate::sess::{Op, Rec, Res, Sess, St};
use serde::{Deserialize, Serialize};

pub struct C11;

#[derive(Clone, Debug, Serialize, Deserialize)]
pub enum Edit {
    /// a line with a number not in the program
    Add(Line),
    /// new text for an existing number
    Replace(Line),
    Delete(u64),
    /// same key, text that cannot tokenize
    Failed(String),
}

#[derive(Clone, Debug, Serialize, Deserialize)]
pub enum ProbeCmd {
    Cont,
    Return,
    Next(String),
    FnCall,
    Read,
    Goto(u64),
    PrintVar(String),
}

#[derive(Clone, Debug, Serialize, Deserialize)]
pub enum Suspend {
    /// run under the baseline policy and break in at this boundary (or stop earlier if the program ends)
    Boundary(u32),
    /// stop at the j-th STOP (0-based) and do not CONT
    AtStop(u32),
    /// every boundary of the run in turn
    EveryBoundary,
}

#[derive(Clone, Debug, Serialize, Deserialize)]
pub struct Case {
    pub prog: ProgCase,
    pub suspend: Suspend,
    pub edit: Edit,
    pub probe: ProbeCmd,
    /// an immediate statement typed at the suspension point before the edit: state opened from the
    /// prompt (a direct-mode FOR, a READ) is a reference into the old program like any other
    #[serde(default)]
    pub pre: Option<String>,
    /// further successful edits after the first one (a scratch line added and deleted in turn): the
    /// 256th or 65536th edit invalidates as much as the first
    #[serde(default)]
    pub extra_edits: u32,
    /// how the interpreter came to be: 0 = `Interpreter::default()`, 1.. = handed over by the file loader
    /// (`SourceFileAnalyzer::analyze(text).into_interpreter()`) for a file that holds no numbered line — what
    /// `abasic -i empty.bas` gives the user to type the program into
    #[serde(default)]
    pub born: u8,
    /// the run is started with a direct-mode `GOTO <first line>` instead of RUN (no RUN before the edit)
    #[serde(default)]
    pub start_by_goto: bool,
}

const LOADER_FILES: &[&str] = &["", "\n", "PRINT 1\n", "   \n\nREM nothing numbered\n", "\r\n"];

fn new_sess(born: u8) -> Result<Sess, Violation> {
    if born == 0 {
        return Ok(Sess::new());
    }
    let text = LOADER_FILES[(born as usize - 1) % LOADER_FILES.len()].to_string();
    crate::sess::guarded(move || abasic_core::SourceFileAnalyzer::analyze(text).into_interpreter())
        .map(Sess::from_interpreter)
        .map_err(|p| Violation::new("C11/panic", format!("panic@{p}"), format!("loading a file without numbered lines unwound: {p}")))
}

fn reply_texts(c: &ProgCase) -> Vec<String> {
    c.replies.iter().map(|r| r.text.clone()).collect()
}

/// run until the suspension point; returns the number of boundaries that existed if the program ended first
fn suspend_at(s: &mut Sess, c: &ProgCase, k: u32, at_stop: Option<u32>, ctx: &mut Ctx) -> Result<(&'static str, u32), Violation> {
    suspend_at_from(s, c, k, at_stop, ctx, false)
}

fn suspend_at_from(s: &mut Sess, c: &ProgCase, k: u32, at_stop: Option<u32>, ctx: &mut Ctx, by_goto: bool) -> Result<(&'static str, u32), Violation> {
    let replies = reply_texts(c);
    let mut ri = 0;
    let mut boundaries = 0u32;
    let mut stops = 0u32;
    let first = c.lines.iter().map(|l| l.num).min();
    let mut pending = Some(Op::Line(match (by_goto, first) {
        (true, Some(n)) => format!("GOTO {n}"),
        _ => "RUN".into(),
    }));
    loop {
        let op = match pending.take() {
            Some(op) => op,
            None => match s.state() {
                St::Idle | St::NewReq => return Ok(("ended", boundaries)),
                st => {
                    if boundaries >= k {
                        let b = s.apply(&Op::Break).unwrap();
                        ctx.calls(1);
                        if let Some(p) = b.panicked() {
                            return Err(Violation::new("C11/panic", format!("panic@{p}"), format!("Break unwound: {p}")));
                        }
                        return Ok((if st == St::Awaiting { "break@awaiting" } else { "break@running" }, boundaries));
                    }
                    boundaries += 1;
                    if st == St::Awaiting {
                        let r = replies.get(ri).cloned().unwrap_or_else(|| "0".into());
                        ri += 1;
                        Op::Reply(r)
                    } else {
                        Op::Tick
                    }
                }
            },
        };
        let Some(call) = s.apply(&op) else {
            return Err(Violation::new("C11/harness", "illegal op", format!("{:?}", op)));
        };
        ctx.calls(1);
        match &call.res {
            Res::Panic(p) => return Err(Violation::new("C11/panic", format!("panic@{p}"), format!("{:?} unwound: {p}", op))),
            Res::Err(_) => return Ok(("failed", boundaries)),
            Res::Ok => {}
        }
        if s.state() == St::Idle && s.probe(false).breakpoint.is_some() && matches!(call.recs.last(), Some(Rec::Break(_))) {
            if at_stop == Some(stops) {
                return Ok(("stop", boundaries));
            }
            stops += 1;
            if stops > 100 {
                return Ok(("stop", boundaries));
            }
            pending = Some(Op::Line("CONT".into()));
        }
        if boundaries > 2000 && matches!(s.state(), St::Running | St::Awaiting) {
            // non-terminating program: suspend it here
            s.apply(&Op::Break);
            return Ok(("break@running", boundaries));
        }
    }
}

fn first_data_text(lines: &[Line]) -> Option<String> {
    let mut ls: Vec<&Line> = lines.iter().collect();
    ls.sort_by_key(|l| l.num);
    for l in ls {
        let mut chunks = vec![];
        data_items_of(&l.stmts, &mut chunks);
        if let Some(c) = chunks.first() {
            return Some(match c.first() {
                None => String::new(),
                Some(DataItem::Num(n)) => format!("{}", n),
                Some(DataItem::Bare(s)) | Some(DataItem::Quoted(s)) => s.clone(),
            });
        }
    }
    None
}

fn apply_edit_to_ast(lines: &[Line], e: &Edit) -> Vec<Line> {
    let mut out: Vec<Line> = lines.to_vec();
    // last writer wins inside the original list first
    let mut dedup: Vec<Line> = vec![];
    for l in out.drain(..) {
        dedup.retain(|x: &Line| x.num != l.num);
        dedup.push(l);
    }
    match e {
        Edit::Add(l) | Edit::Replace(l) => {
            dedup.retain(|x| x.num != l.num);
            dedup.push(l.clone());
        }
        Edit::Delete(n) => dedup.retain(|x| x.num != *n),
        Edit::Failed(_) => {}
    }
    dedup
}

fn edit_text(e: &Edit) -> String {
    match e {
        Edit::Add(l) | Edit::Replace(l) => print_line(l),
        Edit::Delete(n) => format!("{}", n),
        Edit::Failed(t) => t.clone(),
    }
}

fn one_placement(c: &Case, k: u32, at_stop: Option<u32>, ctx: &mut Ctx) -> Option<Violation> {
    let v = |class: &str, fp: String, detail: String| Some(Violation::new(&format!("C11/{class}"), fp, detail));
    let mut s = match new_sess(c.born) {
        Ok(s) => s,
        Err(e) => return Some(e),
    };
    if c.born > 0 {
        ctx.count("fault.interpreter_handed_over_by_file_loader");
    }
    if c.start_by_goto {
        ctx.count("fault.run_started_by_direct_goto");
    }
    if let Err(e) = enter_program(&mut s, &c.prog, "C11") {
        return Some(e);
    }
    s.apply(&Op::Seed(c.prog.seed));
    let (how, _b) = match suspend_at_from(&mut s, &c.prog, k, at_stop, ctx, c.start_by_goto) {
        Ok(x) => x,
        Err(e) => return Some(e),
    };
    ctx.count(&format!("fault.edit@{how}"));
    if let Some(pre) = &c.pre {
        let calls = s.line_and_settle(pre, 50);
        ctx.calls(calls.len() as u64);
        for cl in &calls {
            if let Some(p) = cl.panicked() {
                return v("panic", format!("panic@{p}"), format!("`{pre}` at the suspension point unwound: {p}"));
            }
        }
        if s.state() != St::Idle {
            return None; // the statement started something that is still running: not this scenario
        }
        ctx.count("fault.immediate_statement_before_edit");
        if s.probe(false).loops.iter().any(|l| l.symbol.ends_with('9')) {
            ctx.count("reach.edit_with_loop_opened_at_the_prompt");
        }
    }
    let p0 = s.probe(true);
    if !p0.stack.is_empty() {
        ctx.count("reach.edit_inside_gosub");
    }
    if !p0.loops.is_empty() {
        ctx.count("reach.edit_inside_for");
    }
    if p0.data_cursor.is_some() {
        ctx.count("reach.edit_past_data");
    }
    if !p0.functions.is_empty() {
        ctx.count("reach.edit_past_def");
    }
    if !p0.stack.is_empty() && !p0.loops.is_empty() && p0.data_cursor.is_some() && !p0.functions.is_empty() {
        ctx.count("reach.edit_inside_all_four");
    }
    let text = edit_text(&c.edit);
    let call = s.apply(&Op::Line(text.clone())).unwrap();
    ctx.calls(1);
    if let Some(p) = call.panicked() {
        return v("panic", format!("panic@{p}"), format!("edit `{text}` unwound: {p}"));
    }
    let p1 = s.probe(true);
    let same_data = |a: &abasic_core::VerifProbe, b: &abasic_core::VerifProbe| {
        format!("{:?}{:?}", a.variables, a.arrays) == format!("{:?}{:?}", b.variables, b.arrays)
    };
    match &c.edit {
        Edit::Failed(_) => {
            ctx.count("fault.failed_edit");
            if call.err().map(|e| e.kind.starts_with("Syntax(Tokenization")) != Some(true) {
                return v("failed-edit-accepted", "no tokenization error".into(), format!("`{text}` gave {:?}", call.res));
            }
            let mut a = p0.clone();
            let mut b = p1.clone();
            a.token_reads = 0;
            b.token_reads = 0;
            // the current location is not a resumable reference (the breakpoint is): any line typed at
            // the prompt moves it to the immediate line, e.g. after a failed run
            a.location = (None, 0);
            b.location = (None, 0);
            a.line_tokens.clear();
            b.line_tokens.clear();
            if a.breakpoint.is_none() {
                // without a breakpoint the subroutine stack is dead: every line typed at the prompt
                // (accepted or not) discards it before doing anything else, so nothing can resume into it
                a.stack.clear();
                b.stack.clear();
            }
            if format!("{:?}", a) != format!("{:?}", b) {
                return v(
                    "rejected-edit-invalidated",
                    "probe differs".into(),
                    format!("rejected edit `{text}` changed the state:\nbefore {:?}\nafter  {:?}", a, b),
                );
            }
            // and the continuation is the uninterrupted one (C07 oracle) — only for break suspensions
            if how.starts_with("break") {
                let run = |breaks: &[BreakPoint], ctx: &mut Ctx| -> Result<Obs, Violation> {
                    let mut s = Sess::new();
                    enter_program(&mut s, &c.prog, "C11")?;
                    s.apply(&Op::Seed(c.prog.seed));
                    let replies = reply_texts(&c.prog);
                    let cfg = DriveCfg {
                        replies: &replies,
                        boundary_cap: c.prog.tick_cap + 2,
                        breaks,
                        at_stop: None,
                        prop: "C11",
                    };
                    drive_run(&mut s, Op::Line("RUN".into()), &cfg, ctx)
                };
                let base = match run(&[], ctx) {
                    Ok(o) => o,
                    Err(e) => return Some(e),
                };
                let pert = match run(
                    &[BreakPoint {
                        at: k,
                        inspections: vec![Inspect::Stmt(text.clone())],
                    }],
                    ctx,
                ) {
                    Ok(o) => o,
                    Err(e) => return Some(e),
                };
                let mut bb = base;
                let mut pp = pert;
                if bb.capped || pp.capped {
                    bb.capped = true;
                    pp.capped = true;
                }
                if let Some(mut x) = compare_obs("C11", "baseline", &bb, "rejected-edit+CONT", &pp, false, true) {
                    x.class = "C11/rejected-edit-continuation".into();
                    return Some(x);
                }
            }
            return None;
        }
        _ => {}
    }
    // ---- successful edit
    match &c.edit {
        Edit::Add(_) => ctx.count("fault.edit_add"),
        Edit::Replace(_) => ctx.count("fault.edit_replace"),
        Edit::Delete(_) => ctx.count("fault.delete_line"),
        Edit::Failed(_) => {}
    }
    if !matches!(call.res, Res::Ok) || call.state != St::Idle {
        return v("edit-rejected", format!("{:?}", call.err().map(|e| e.kind.clone())), format!("edit `{text}` gave {:?}", call.res));
    }
    if !same_data(&p0, &p1) {
        return v(
            "edit-changed-data",
            "variables/arrays".into(),
            format!("edit `{text}`: variables/arrays before {:?} {:?} after {:?} {:?}", p0.variables, p0.arrays, p1.variables, p1.arrays),
        );
    }
    if p1.breakpoint.is_some() || !p1.stack.is_empty() || !p1.loops.is_empty() || !p1.functions.is_empty() || p1.data_cursor.is_some() {
        return v(
            "stale-reference-kept",
            format!(
                "breakpoint={} stack={} loops={} functions={} data={}",
                p1.breakpoint.is_some(),
                p1.stack.len(),
                p1.loops.len(),
                p1.functions.len(),
                p1.data_cursor.is_some()
            ),
            format!("after edit `{text}` (suspended by {how}): {:?}", p1),
        );
    }
    // ---- more edits: nothing comes back
    if c.extra_edits > 0 {
        for k in 0..c.extra_edits {
            let t = if k % 2 == 0 { "99990 REM scratch" } else { "99990" };
            let call = s.apply(&Op::Line(t.to_string())).unwrap();
            if let Some(p) = call.panicked() {
                return v("panic", format!("panic@{p}"), format!("edit {} of a series unwound: {p}", k + 2));
            }
        }
        ctx.calls(c.extra_edits as u64);
        ctx.count("fault.series_of_edits");
        let p2 = s.probe(true);
        if !same_data(&p0, &p2) {
            return v("edit-changed-data", "variables/arrays after a series of edits".into(), format!("after {} further edits: variables/arrays before {:?} {:?} after {:?} {:?}", c.extra_edits, p0.variables, p0.arrays, p2.variables, p2.arrays));
        }
        if p2.breakpoint.is_some() || !p2.stack.is_empty() || !p2.loops.is_empty() || !p2.functions.is_empty() || p2.data_cursor.is_some() {
            return v(
                "stale-reference-kept",
                format!("after {} edits: breakpoint={} stack={} loops={} functions={} data={}", c.extra_edits + 1, p2.breakpoint.is_some(), p2.stack.len(), p2.loops.len(), p2.functions.len(), p2.data_cursor.is_some()),
                format!("after edit `{text}` and {} further edits (suspended by {how}): {:?}", c.extra_edits, p2),
            );
        }
    }
    // ---- the behavioural probe
    let edited = apply_edit_to_ast(&c.prog.lines, &c.edit);
    let (cmd, expect_err, expect_print): (String, Option<&str>, Option<String>) = match &c.probe {
        ProbeCmd::Cont => ("CONT".into(), Some("CannotContinue"), None),
        ProbeCmd::Return => ("RETURN".into(), Some("ReturnWithoutGosub"), None),
        ProbeCmd::Next(var) => (format!("NEXT {var}"), Some("NextWithoutFor"), None),
        ProbeCmd::FnCall => ("PRINT FNW(3)".into(), None, Some("0\n".into())),
        ProbeCmd::Read => match first_data_text(&edited) {
            Some(t) => ("READ Q$ : PRINT Q$".into(), None, Some(format!("{}\n", t))),
            None => ("READ Q$ : PRINT Q$".into(), Some("OutOfData"), None),
        },
        ProbeCmd::Goto(n) => {
            if edited.iter().any(|l| l.num == *n) {
                (format!("GOTO {n}"), None, None)
            } else {
                (format!("GOTO {n}"), Some("UndefinedStatement"), None)
            }
        }
        ProbeCmd::PrintVar(var) => {
            let val = p0
                .variables
                .iter()
                .find(|(n, _)| n == var)
                .map(|(_, v)| match v {
                    abasic_core::VerifValue::Num(n) => format!("{}", n),
                    abasic_core::VerifValue::Str(s) => s.clone(),
                })
                .unwrap_or_else(|| if var.ends_with('$') { String::new() } else { "0".into() });
            (format!("PRINT {var}"), None, Some(format!("{}\n", val)))
        }
    };
    ctx.count(&format!("reach.probe.{}", cmd.split(' ').next().unwrap_or("")));
    // a host break can also arrive while the interpreter is idle (the CLI polls its CTRL-C channel after every
    // turn of its loop, whatever the state): after the edit there is nothing it could make resumable
    let mut idle_break = false;
    if matches!(c.probe, ProbeCmd::Cont) && !matches!(c.edit, Edit::Failed(_)) && s.state() == St::Idle && c.prog.order_seed % 3 == 1 {
        idle_break = true;
        if let Err(p) = crate::sess::guarded(|| s.it.break_at_current_location()) {
            return v("panic", format!("panic@{p}"), format!("host break while idle after edit `{text}` unwound: {p}"));
        }
        let _ = crate::sess::guarded(|| s.it.take_output());
        ctx.calls(1);
        ctx.count("fault.idle_break_between_edit_and_CONT");
    }
    let calls = s.line_and_settle(&cmd, 300);
    ctx.calls(calls.len() as u64);
    for cl in &calls {
        if let Some(p) = cl.panicked() {
            return v("panic", format!("panic@{p}"), format!("probe `{cmd}` after edit `{text}` unwound: {p}"));
        }
    }
    let err = calls.iter().find_map(|c| c.err().cloned());
    let prints: Vec<String> = calls
        .iter()
        .flat_map(|c| c.recs.iter())
        .filter_map(|r| match r {
            Rec::Print(s) => Some(s.clone()),
            _ => None,
        })
        .collect();
    if matches!(c.probe, ProbeCmd::Goto(_)) && expect_err.is_none() {
        return None; // the jump target survives: only "no unwind" is required
    }
    if idle_break {
        // The statement does not say what CONT answers to a break that was taken while idle (C01's protocol has
        // no such call): CAN'T CONTINUE as on the pinned tree, or a CONT that continues nothing — returns at once,
        // idle, without a record — are both "nothing of the old program resumed". Anything else (output, an error
        // located in a line, a program that is running again) is a resumption.
        let nothing = calls.len() == 1 && matches!(calls[0].res, Res::Ok) && calls[0].state == St::Idle && calls[0].recs.is_empty();
        let cant = matches!(&err, Some(e) if e.kind == "CannotContinue");
        if !(nothing || cant) {
            return v(
                "probe-differs",
                format!("CONT after an idle break: got={:?} prints={}", err.as_ref().map(|e| e.kind.clone()), prints.len()),
                format!("after edit `{text}` (suspended by {how}) and a host break taken while idle, `CONT` resumed something: error {:?}, prints {:?}, {} calls, state after the first {:?}", err.map(|e| e.text), prints, calls.len(), calls[0].state),
            );
        }
        return None;
    }
    match (expect_err, &err) {
        (Some(k), Some(e)) if e.kind == k => {}
        (None, None) => {}
        _ => {
            return v(
                "probe-differs",
                format!("{} expect={:?} got={:?}", cmd.split(' ').next().unwrap_or(""), expect_err, err.as_ref().map(|e| e.kind.clone())),
                format!("after edit `{text}` (suspended by {how}) `{cmd}` should give {:?} but gave {:?} (prints {:?})", expect_err, err.map(|e| e.text), prints),
            )
        }
    }
    if let Some(p) = expect_print {
        if prints != vec![p.clone()] {
            return v(
                "probe-differs",
                format!("{} print", cmd.split(' ').next().unwrap_or("")),
                format!("after edit `{text}` (suspended by {how}) `{cmd}` should print {:?} but printed {:?}", p, prints),
            );
        }
    }
    None
}

impl Prop for C11 {
    const ID: &'static str = "C11";
    type Case = Case;

    fn meta() -> Meta {
        Meta {
            level: "fault_enumeration",
            rule: "Programs from the C03 grammar with GOSUB, FOR, DATA, DEF forced on (plus INPUT/STOP). The run is suspended (break at boundary k while running or awaiting input, at a STOP, after completion, after a failure), optionally an immediate statement that opens state from the prompt (FOR, nested FORs, READ), then ONE edit (sometimes followed by 1-4 or 255 / 256 / 257 / 511 / 512 / 65535 / 65536 further edits of a scratch line; sometimes the program is a single line that is deleted) (add a new line, replace an existing line incl. the ones holding the breakpoint / FOR / GOSUB return point / DATA / DEF, delete a line, or a rejected edit whose text cannot tokenize) and ONE probe (CONT — one time in three preceded by a host break that arrives while the interpreter is idle, as the CLI's CTRL-C channel can deliver it; then CONT may also be a no-op, but must not resume anything —, RETURN, NEXT v, PRINT FNW(3), READ Q$ : PRINT Q$, GOTO n surviving/deleted, PRINT v). Mode EveryBoundary (always in thorough, 1 in 5 in quick) places the suspension at EVERY boundary of the run in turn. One case in eight works on an interpreter handed over by the file loader for a file without numbered lines (empty, blank, unnumbered text — what `abasic -i empty.bas` gives the user to type into) instead of a default-constructed one, and one in six starts the run with a direct-mode `GOTO <first line>` instead of RUN. Oracle after a successful edit: probe snapshot has no breakpoint/frames/loops/functions/data cursor while variables and arrays (content hash) are unchanged, and the probe command answers CAN'T CONTINUE / RETURN WITHOUT GOSUB / NEXT WITHOUT FOR / array default 0 / first DATA item of the edited program / UNDEF'D STATEMENT. After a rejected edit: snapshot identical and break+rejected edit+CONT continues exactly like the uninterrupted run. distinct_nontrivial = distinct (program, boundary, edit, probe) hashes among placements where the snapshot before the edit held at least one of frame/loop/data cursor/function/breakpoint.",
            real: &["abasic-core Interpreter (set_numbered_line and its five resets, CONT/RETURN/NEXT/READ/function lookup paths)"],
            stub: &["the host (suspension point, edit, probe)"],
            assumptions: &["edits that change nothing (deleting an absent line, re-entering identical text) are not generated: the statement is silent about them"],
            reach: &[
                "reach.edit_inside_gosub",
                "reach.edit_inside_for",
                "reach.edit_past_data",
                "reach.edit_past_def",
                "reach.edit_inside_all_four",
                "fault.edit@break@running",
                "fault.edit@break@awaiting",
                "fault.edit@stop",
                "fault.edit@ended",
                "fault.edit@failed",
                "fault.failed_edit",
                "fault.delete_line",
                "fault.idle_break_between_edit_and_CONT",
                "fault.interpreter_handed_over_by_file_loader",
                "fault.run_started_by_direct_goto",
            ],
        }
    }

    fn runs(tier: Tier) -> u64 {
        match tier {
            Tier::Quick => 120_000,
            Tier::Thorough => 3_000_000,
        }
    }

    fn generate(rng: &mut Rng, ctx: &mut Ctx) -> Case {
        let mut k = Knobs::swarm(rng);
        k.gosub = true;
        k.for_loops = true;
        k.data = true;
        k.funcs = true;
        k.special_defs = true;
        k.input = rng.chance(1, 2);
        k.stop = rng.chance(1, 2);
        k.failures = rng.chance(1, 5);
        k.max_lines = 6 + rng.usize(20);
        let mut grng = rng.fork();
        let (lines, info) = Gen::new(&mut grng, k.clone()).program();
        let replies = reply_script(rng, info.inputs * 2 + 2);
        let prog = ProgCase {
            lines,
            order_seed: rng.next() | 1,
            seed: rng.below(1000),
            replies,
            breaks: vec![],
            tracing: false,
            warnings: false,
            tick_cap: 300,
            await_breaks: vec![],
            stop_cmds: vec![],
            trace_via_command: false,
            reply_breaks: vec![],
        };
        let nums: Vec<u64> = prog.lines.iter().map(|l| l.num).collect();
        let existing = rng.pick(&nums);
        let mut g = Gen::new(rng, {
            let mut k2 = k.clone();
            k2.input = false;
            k2.stop = false;
            k2
        });
        let new_stmts = vec![g.simple()];
        let edit = match rng.below(10) {
            0..=2 => {
                // a number not in the program
                let mut n = existing + 1;
                while nums.contains(&n) {
                    n += 1;
                }
                Edit::Add(Line { num: n, stmts: new_stmts })
            }
            3..=5 => {
                let old = prog.lines.iter().rfind(|l| l.num == existing).unwrap();
                let mut stmts = new_stmts;
                if print_line_body(&stmts) == print_line_body(&old.stmts) {
                    stmts.push(Stmt::Rem(" edited".into()));
                }
                Edit::Replace(Line { num: existing, stmts })
            }
            6..=7 => Edit::Delete(existing),
            _ => Edit::Failed(format!(
                "{} {}",
                existing,
                rng.pick(&["PRINT \"abc", "C = 1.2.3", "C = 1 % 2", "PRINT 1 : PRINT \"", "é", "C = 3 # 4"])
            )),
        };
        let probe = match rng.below(9) {
            0..=1 => ProbeCmd::Cont,
            2 => ProbeCmd::Return,
            3 => ProbeCmd::Next(rng.pick(NUM_VARS).to_string()),
            4 => ProbeCmd::FnCall,
            5 => ProbeCmd::Read,
            6 => ProbeCmd::Goto(if rng.chance(1, 2) { existing } else { rng.pick(&nums) }),
            7 => ProbeCmd::Goto(99_999),
            _ => ProbeCmd::PrintVar(if rng.chance(1, 4) { "C$".into() } else { rng.pick(NUM_VARS).to_string() }),
        };
        let every = match ctx.tier {
            Tier::Thorough => rng.chance(1, 2),
            Tier::Quick => rng.chance(1, 5),
        };
        let suspend = if every {
            Suspend::EveryBoundary
        } else if rng.chance(1, 6) {
            Suspend::AtStop(rng.below(3) as u32)
        } else {
            Suspend::Boundary(if rng.chance(1, 8) { 100_000 } else { rng.below(120) as u32 })
        };
        let mut probe = probe;
        let pre = if !matches!(edit, Edit::Failed(_)) && rng.chance(1, 5) {
            let t = rng.pick(&["FOR Q9 = 1 TO 5", "FOR Q9 = 1 TO 5 : FOR W9 = 1 TO 2", "READ Q$", "FOR C = 1 TO 9", "Q9 = 1 : FOR W9 = 3 TO 1"]).to_string();
            if t.contains("Q9 =") && rng.chance(1, 2) {
                probe = ProbeCmd::Next(if t.contains("W9") && rng.chance(1, 2) { "W9".into() } else if t.starts_with("FOR Q9") { "Q9".into() } else { "W9".into() });
            }
            Some(t)
        } else {
            None
        };
        let extra_edits = if matches!(edit, Edit::Failed(_)) {
            0
        } else {
            match rng.below(400) {
                0..=11 => rng.pick(&[255u32, 256, 257, 511, 512]),
                12 => rng.pick(&[65535u32, 65536]),
                13..=30 => 1 + rng.below(4) as u32,
                _ => 0,
            }
        };
        let extra_edits = if matches!(suspend, Suspend::EveryBoundary) { extra_edits.min(512) } else { extra_edits };
        // swarm: how the interpreter was born and how the run was started (not for rejected edits, whose oracle
        // compares with an uninterrupted RUN on a default interpreter)
        let rejected = matches!(edit, Edit::Failed(_));
        let born = if !rejected && rng.chance(1, 8) { 1 + rng.below(5) as u8 } else { 0 };
        let start_by_goto = !rejected && rng.chance(1, 6);
        let mut case = Case { prog, suspend, edit, probe, pre, extra_edits, born, start_by_goto };
        // the smallest program: one line; deleting it empties the program — and keeps what it stored
        if rng.chance(1, 40) {
            let num = 10 * (1 + rng.below(9));
            let let_ = |name: &str, index: Option<Vec<Expr>>, e: Expr| Stmt::Let { kw: false, target: LValue { name: name.to_string(), index }, e };
            case.prog.lines = vec![Line {
                num,
                stmts: vec![
                    let_("C", None, Expr::Num(5.0)),
                    Stmt::Dim("K".into(), vec![Expr::Num(3.0)]),
                    let_("K", Some(vec![Expr::Num(1.0)]), Expr::Num(7.0)),
                    let_("C$", None, Expr::Str("kept".into())),
                ],
            }];
            case.suspend = Suspend::Boundary(100_000);
            case.edit = if rng.chance(2, 3) { Edit::Delete(num) } else { Edit::Replace(Line { num, stmts: vec![Stmt::Rem(" gone".into())] }) };
            case.probe = ProbeCmd::PrintVar(if rng.chance(1, 2) { "C".into() } else { "C$".into() });
            case.pre = None;
        }
        case
    }

    fn execute(c: &Case, ctx: &mut Ctx) -> Option<Violation> {
        let h = fnv(format!("{:?}{:?}{:?}", c.prog.lines.iter().map(print_line).collect::<Vec<_>>(), c.edit, c.probe).as_bytes());
        match &c.suspend {
            Suspend::Boundary(k) => {
                ctx.nontrivial(h ^ (*k as u64));
                one_placement(c, *k, None, ctx)
            }
            Suspend::AtStop(j) => {
                ctx.nontrivial(h ^ (0x5555 + *j as u64));
                one_placement(c, u32::MAX, Some(*j), ctx)
            }
            Suspend::EveryBoundary => {
                // how many boundaries does the uninterrupted run have?
                let mut s = Sess::new();
                if let Err(e) = enter_program(&mut s, &c.prog, "C11") {
                    return Some(e);
                }
                s.apply(&Op::Seed(c.prog.seed));
                let n = match suspend_at(&mut s, &c.prog, c.prog.tick_cap, None, ctx) {
                    Ok((_, b)) => b,
                    Err(e) => return Some(e),
                };
                ctx.count("reach.every_boundary_program");
                for k in 0..=n.min(c.prog.tick_cap) {
                    ctx.nontrivial(h ^ (k as u64));
                    ctx.count("reach.every_boundary_placement");
                    if let Some(mut v) = one_placement(c, k, None, ctx) {
                        v.detail = format!("[suspended at boundary {k}] {}", v.detail);
                        return Some(v);
                    }
                }
                None
            }
        }
    }

    fn view(c: &Case) -> serde_json::Value {
        serde_json::json!({"session": crate::lockstep::prog_view(&c.prog), "suspend": c.suspend, "edit": edit_text(&c.edit), "probe": c.probe})
    }

    fn shrink(c: &Case) -> Vec<Case> {
        let mut out = vec![];
        if let Suspend::EveryBoundary = c.suspend {
            for k in 0..80u32 {
                let mut n = c.clone();
                n.suspend = Suspend::Boundary(k);
                out.push(n);
            }
        }
        if let Suspend::Boundary(k) = c.suspend {
            if k > 0 {
                for k2 in [k / 2, k - 1] {
                    let mut n = c.clone();
                    n.suspend = Suspend::Boundary(k2);
                    out.push(n);
                }
            }
        }
        for p in shrink_prog_case(&c.prog) {
            let mut n = c.clone();
            n.prog = p;
            out.push(n);
        }
        out
    }
}
