pub mod c01;
pub mod c03;
pub mod c07;
pub mod c08;
pub mod c10;
pub mod c11;
pub mod c17;
