pub mod c01;
