//! C09 — one host call executes at most one statement and always hands control back.
//! A per-turn monitor on every evaluating call (RUN, CONT, tick) of every run,
//! observed from the host's side of the seam, with tracing forced on.

use crate::ast::*;
use crate::engine::{Ctx, Meta, Prop, Tier, Violation};
use crate::gen::{reply_script, Gen, Knobs};
use crate::lockstep::{enter_program, shrink_prog_case, ProgCase};
use crate::prng::{fnv, Rng};
use crate::sess::{Op, Rec, Res, Sess, St};
use serde::{Deserialize, Serialize};

pub struct C09;

#[derive(Clone, Debug, Serialize, Deserialize)]
pub struct Case {
    pub prog: ProgCase,
    /// raw extra lines (long multi-statement lines, long scans) appended as text
    pub raw_lines: Vec<String>,
    /// boundaries at which the host breaks in and issues CONT (liveness of break)
    pub breaks: Vec<u32>,
    pub uses_functions: bool,
}

fn long_line(rng: &mut Rng, num: u64) -> String {
    let n = rng.pick(&[5usize, 20, 50, 120, 200]);
    let mut parts = vec![];
    match rng.below(6) {
        5 => {
            // the work of one call is bounded by the length of the line, not by the *values* on it:
            // operands of huge magnitude (a power, a product, INT / ABS of 1E300, a subscript) cost the same
            let big = rng.pick(&["1000000000000000000", "99999999999", "1E300", "4294967296", "18446744073709551615"]);
            for _ in 0..n.min(20) {
                parts.push(match rng.below(5) {
                    0 => format!("C = 1 ^ {big}"),
                    1 => format!("C = 1.0000001 ^ {big}"),
                    2 => format!("C = INT({big}) + ABS(-{big})"),
                    3 => format!("C = {big} * {big} / {big}"),
                    _ => format!("C = 0 ^ {big} + 2 ^ -{big}"),
                });
            }
        }
        0 => {
            for i in 0..n {
                parts.push(format!("PRINT {}", i));
            }
        }
        1 => {
            for _ in 0..n {
                parts.push("C = C + 1".to_string());
            }
        }
        2 => {
            // long IF-false scan: one statement, many tokens
            parts.push(format!("IF 0 THEN {}", (0..n).map(|i| format!("PRINT {}", i)).collect::<Vec<_>>().join(" : ")));
        }
        3 => {
            // IF-true followed by many statements
            parts.push(format!("IF 1 THEN {}", (0..n).map(|i| format!("K = {}", i)).collect::<Vec<_>>().join(" : ")));
        }
        _ => {
            // nested IFs: an IF and the statement it selects count as one
            let d = 1 + rng.usize(6);
            parts.push(format!("{}PRINT \"deep\"", "IF 1 THEN ".repeat(d)));
            for i in 0..n / 4 {
                parts.push(format!("PRINT {}", i));
            }
        }
    }
    format!("{} {}", num, parts.join(" : "))
}

fn endless(rng: &mut Rng, num: u64) -> Vec<String> {
    match rng.below(4) {
        0 => vec![format!("{} GOTO {}", num, num)],
        1 => vec![format!("{} FOR Q = 1 TO 2 STEP 0", num), format!("{} NEXT Q", num + 1)],
        2 => vec![format!("{} C = C + 1 : GOTO {}", num, num)],
        _ => vec![format!("{} PRINT \"x\"; : GOTO {}", num, num)],
    }
}

fn count_ifs(tokens: &[String], from: usize) -> usize {
    tokens.iter().skip(from).filter(|t| t.as_str() == "IF").count()
}

/// Run the program on the Web adapter (natively compiled) and count the calls that start or
/// continue evaluation until it is no longer running. None: it asked for input or did not end.
fn web_eval_calls(pc: &ProgCase, cap: u64) -> Result<Option<u64>, String> {
    use crate::websess::{WSt, WebSess};
    let mut w = WebSess::new();
    for i in crate::lockstep::entry_order(pc.lines.len(), pc.order_seed) {
        w.start_evaluating(&crate::ast::print_line(&pc.lines[i]))?;
        let _ = w.take_latest_output()?;
        if w.state()? == WSt::Errored {
            let _ = w.take_latest_error()?;
        }
    }
    w.randomize(pc.seed)?;
    w.start_evaluating("RUN")?;
    let mut n = 1u64;
    loop {
        let _ = w.take_latest_output()?;
        match w.state()? {
            WSt::Running if n < cap => {
                w.continue_evaluating()?;
                n += 1;
            }
            WSt::Running | WSt::Awaiting => return Ok(None),
            WSt::Errored => {
                let _ = w.take_latest_error()?;
                return Ok(Some(n));
            }
            WSt::Idle => return Ok(Some(n)),
        }
    }
}

impl Prop for C09 {
    const ID: &'static str = "C09";
    type Case = Case;

    fn meta() -> Meta {
        Meta {
            level: "exploration",
            rule: "Programs from the C03/C07 grammar (INPUT, STOP, failures) plus raw long lines (5-200 statements on one line, long IF-false scans, operands of huge magnitude, IF-true with long tails, nested IFs) and deliberately non-terminating tails (GOTO self-loop, FOR STEP 0, counting loops), run with tracing on under a schedule with break+CONT at sampled boundaries. After EVERY evaluating host call (RUN, CONT, tick) with L/i the line and token index at call entry (probe): (a) every Trace record names L; (b) their number is <= 1 + number of IF tokens at index >= i on L; (c) at most one Print and at most one of REENTER/EXTRA IGNORED; (d) a break at a sampled boundary returns Idle within that call, and a non-terminating program is still Running after each call; (f) the program is also run in lock-step with the reference model: the number of evaluating calls is >= the number of statements the model executes, in total and between any two consecutive PRINT records; programs that end without input are also run on the natively built Web adapter, which must need exactly as many evaluating calls; (e) for programs without user functions the token-read counter (hook) grows by at most 64*len(L)+64. distinct_nontrivial = distinct (program, break set) hashes among runs with >= 5 evaluating calls.",
            real: &["abasic-core Interpreter run_next_statement / evaluate_statement / IF scan / DEF skip / INPUT rewind"],
            stub: &["the host (ticks, breaks, replies)"],
            assumptions: &[
                "bound (e) uses the constant 64: each of the 8 precedence levels peeks a bounded number of times per token, IF-false scan and DEF skip are single passes; the observed maximum ratio is reported in the evidence counters",
                "turn-entry location comes from the read-only probe hook",
            ],
            reach: &["reach.long_line>=100_statements", "reach.nonterminating_still_running", "fault.break+cont", "reach.if_plus_selected_statement"],
        }
    }

    fn runs(tier: Tier) -> u64 {
        match tier {
            Tier::Quick => 100_000,
            Tier::Thorough => 3_000_000,
        }
    }

    fn generate(rng: &mut Rng, ctx: &mut Ctx) -> Case {
        let mut k = Knobs::swarm(rng);
        k.input = rng.chance(1, 2);
        k.stop = rng.chance(1, 3);
        k.max_lines = 3 + rng.usize(16);
        k.multi_stmt = k.multi_stmt || rng.chance(1, 2);
        let uses_functions = k.funcs;
        let mut grng = rng.fork();
        let (lines, info) = Gen::new(&mut grng, k).program();
        let replies = reply_script(rng, info.inputs * 2 + 2);
        let maxnum = lines.iter().map(|l| l.num).max().unwrap_or(0);
        let mut raw_lines = vec![];
        let mut n = maxnum + 1000;
        // the generated program ends with END before its subroutines; raw lines are reached by
        // replacing that: we put the raw lines *before* the program instead (low numbers are taken),
        // so use a GOTO-free layout: raw lines get numbers between existing ones when possible
        for _ in 0..rng.usize(3) {
            raw_lines.push(long_line(rng, n));
            n += 10;
        }
        if rng.chance(1, 3) {
            raw_lines.extend(endless(rng, n));
        }
        let nb = rng.usize(5);
        let breaks = (0..nb).map(|_| rng.below(300) as u32).collect();
        let prog = ProgCase {
            lines,
            order_seed: rng.next() | 1,
            seed: rng.below(100),
            replies,
            breaks: vec![],
            tracing: true,
            warnings: rng.chance(1, 3),
            tick_cap: match ctx.tier {
                Tier::Quick => 1200,
                Tier::Thorough => 4000,
            },
            await_breaks: vec![],
            stop_cmds: vec![],
            trace_via_command: false,
            reply_breaks: vec![],
        };
        Case {
            prog,
            raw_lines,
            breaks,
            uses_functions,
        }
    }

    fn execute(c: &Case, ctx: &mut Ctx) -> Option<Violation> {
        let v = |class: &str, fp: String, detail: String| Some(Violation::new(&format!("C09/{class}"), fp, detail));
        // (f) turn-count refinement: one evaluating call executes at most one statement, so the host
        // needs at least as many evaluating calls as the reference model executes statements
        // (an IF with the statement it selects is one statement in the model too)
        {
            let mut pc = c.prog.clone();
            pc.breaks = vec![];
            pc.tracing = false;
            pc.warnings = false;
            let cmp = crate::lockstep::Compare { prop: "C09", trace: false, warnings: false, reenter_probe: false };
            match crate::lockstep::run_lockstep(&pc, cmp, ctx) {
                Ok(o) => {
                    // the same between any two consecutive PRINT records: the statements the model
                    // executes from one to the next need at least as many calls (slack gained in one
                    // part of the run cannot pay for a merged pair of statements in another)
                    if o.print_marks.len() == o.model.print_marks.len() {
                        let (r, m) = (&o.print_marks, &o.model.print_marks);
                        for k in 0..r.len() {
                            let (dr, dm) = if k == 0 { (r[0], m[0]) } else { (r[k] - r[k - 1], m[k].saturating_sub(m[k - 1])) };
                            ctx.count("reach.turn_count_interval_compared");
                            if dr < dm {
                                return v(
                                    "more-than-one-statement",
                                    "fewer evaluating calls than statements between two PRINTs".into(),
                                    format!("between printed record {} and {} the reference model executes {} statements, the interpreter used {} evaluating calls", k as i64 - 1, k, dm, dr),
                                );
                            }
                        }
                    }
                    // the Web adapter's calls are calls that start / continue evaluation too: the same
                    // program on the adapter needs exactly as many of them as on the bare interpreter
                    if !o.capped && o.inputs_answered == 0 && o.stops == 0 {
                        match web_eval_calls(&pc, o.eval_calls + 8) {
                            Ok(Some(n)) => {
                                ctx.count("reach.web_adapter_turn_count_compared");
                                if n < o.eval_calls {
                                    return v(
                                        "more-than-one-statement",
                                        "web adapter: fewer evaluating calls than the interpreter".into(),
                                        format!("the program ran to its end in {} evaluating calls of the Web adapter but takes {} on the interpreter: an adapter call executes more than one statement", n, o.eval_calls),
                                    );
                                }
                            }
                            Ok(None) => {}
                            Err(p) => return v("web-trap", format!("panic@{p}"), format!("the Web adapter trapped: {p}")),
                        }
                    }
                    if !o.capped {
                        let stmts = o.model.steps.saturating_sub(o.model.skiprest_steps);
                        ctx.count("reach.turn_count_compared");
                        if o.eval_calls < stmts {
                            return v(
                                "more-than-one-statement",
                                "fewer evaluating calls than statements".into(),
                                format!("the program ran to its end in {} evaluating host calls, but it executes {} statements (reference model)", o.eval_calls, stmts),
                            );
                        }
                    }
                }
                Err(x) => return Some(x),
            }
        }
        let mut s = Sess::new();
        s.apply(&Op::Flags(true, c.prog.warnings));
        // the generated program has an END line that would hide the raw tail: drop top-level END
        // statements so that execution falls through into the raw lines
        let mut pc = c.prog.clone();
        if !c.raw_lines.is_empty() {
            for l in pc.lines.iter_mut() {
                l.stmts.retain(|s| !matches!(s, Stmt::End));
                if l.stmts.is_empty() {
                    l.stmts.push(Stmt::Rem(" end".into()));
                }
            }
        }
        if let Err(e) = enter_program(&mut s, &pc, "C09") {
            return Some(e);
        }
        for t in &c.raw_lines {
            let r = s.apply(&Op::Line(t.clone()))?;
            if !matches!(r.res, Res::Ok) {
                return v("harness", "raw line rejected".into(), format!("{t}: {:?}", r.res));
            }
            if t.len() > 1500 {
                ctx.count("reach.long_line>=100_statements");
            }
        }
        s.apply(&Op::Seed(c.prog.seed));
        let first_line = s.probe(false);
        let _ = first_line;
        let mut replies = c.prog.replies.iter();
        let mut breaks = c.breaks.clone();
        breaks.sort();
        let mut bi = 0;
        let mut boundary = 0u32;
        let mut evaluating_calls = 0u64;
        let mut max_ratio_x100 = 0u64;
        let mut pending = Some(Op::Line("RUN".into()));
        let mut stops = 0;
        loop {
            let op = match pending.take() {
                Some(op) => op,
                None => match s.state() {
                    St::Idle | St::NewReq => break,
                    st => {
                        if boundary >= c.prog.tick_cap {
                            if st == St::Running {
                                ctx.count("reach.nonterminating_still_running");
                            }
                            // (d) liveness: the host can always stop it between two statements
                            let b = s.apply(&Op::Break)?;
                            if b.state != St::Idle || b.panicked().is_some() {
                                return v("break-not-idle", format!("{:?}", b.state), "final Break did not return to idle".into());
                            }
                            break;
                        }
                        boundary += 1;
                        if bi < breaks.len() && breaks[bi] < boundary {
                            while bi < breaks.len() && breaks[bi] < boundary {
                                bi += 1;
                            }
                            let b = s.apply(&Op::Break)?;
                            ctx.calls(1);
                            if let Some(p) = b.panicked() {
                                return v("panic", format!("panic@{p}"), format!("Break unwound: {p}"));
                            }
                            if b.state != St::Idle {
                                return v("break-not-idle", format!("{:?}", b.state), format!("Break at boundary {boundary} left state {:?}", b.state));
                            }
                            ctx.count("fault.break+cont");
                            if boundary % 2 == 0 {
                                // a direct-mode line typed while the program is suspended is stepped like any other
                                let mut prints = 0;
                                let mut calls_n = 0;
                                let mut call = s.apply(&Op::Line("PRINT 1 : PRINT 2 : PRINT 3".into()))?;
                                loop {
                                    calls_n += 1;
                                    ctx.calls(1);
                                    if let Some(p) = call.panicked() {
                                        return v("panic", format!("panic@{p}"), format!("immediate line at a break unwound: {p}"));
                                    }
                                    let n = call.recs.iter().filter(|r| matches!(r, Rec::Print(_))).count();
                                    if n > 1 {
                                        return v(
                                            "more-than-one-statement",
                                            format!("immediate line at a breakpoint: {n} prints in one call"),
                                            format!("`PRINT 1 : PRINT 2 : PRINT 3` typed at a breakpoint printed {:?} in one host call", call.recs),
                                        );
                                    }
                                    prints += n;
                                    if s.state() != St::Running || calls_n > 12 {
                                        break;
                                    }
                                    call = s.apply(&Op::Tick)?;
                                }
                                if prints != 3 || calls_n < 3 {
                                    return v(
                                        "more-than-one-statement",
                                        format!("immediate line at a breakpoint: {prints} prints in {calls_n} calls"),
                                        format!("`PRINT 1 : PRINT 2 : PRINT 3` typed at a breakpoint took {calls_n} host calls and printed {prints} records"),
                                    );
                                }
                                ctx.count("reach.immediate_line_at_break_stepped");
                            }
                            if boundary % 4 == 1 {
                                // a direct-mode jump typed at the breakpoint (GOTO / GOSUB <first line>) is one statement:
                                // the call performs the jump and hands control back *before* anything on the
                                // destination line has run — nothing traced, nothing printed, location = start of that line
                                if let Some(l) = s.list_quiet_first() {
                                    let word = if boundary % 8 == 1 { "GOTO" } else { "GOSUB" };
                                    let text = format!("{word} {l}");
                                    let call = s.apply(&Op::Line(text.clone()))?;
                                    ctx.calls(2);
                                    if let Some(p) = call.panicked() {
                                        return v("panic", format!("panic@{p}"), format!("`{text}` typed at a breakpoint unwound: {p}"));
                                    }
                                    let executed = call.recs.iter().filter(|r| matches!(r, Rec::Print(_) | Rec::Trace(_) | Rec::Break(_) | Rec::Extra | Rec::Reenter)).count();
                                    let loc = s.probe(false).location;
                                    if call.err().is_none() && (executed > 0 || s.state() != St::Running || (loc.0, loc.1) != (Some(l), 0)) {
                                        return v(
                                            "more-than-one-statement",
                                            format!("direct-mode {word}: ran past the jump"),
                                            format!("`{text}` typed at a breakpoint produced {:?} and left state {:?} at line {:?} token {}: the call must perform the jump only (line {l}, token 0, nothing executed)", call.recs, s.state(), loc.0, loc.1),
                                        );
                                    }
                                    if call.err().is_some() {
                                        break;
                                    }
                                    ctx.count("reach.direct_jump_at_break_stepped");
                                    continue;
                                }
                            }
                            Op::Line("CONT".into())
                        } else if st == St::Awaiting {
                            Op::Reply(replies.next().map(|r| r.text.clone()).unwrap_or_else(|| "0".into()))
                        } else {
                            Op::Tick
                        }
                    }
                },
            };
            let evaluating = matches!(&op, Op::Tick) || matches!(&op, Op::Line(t) if t == "RUN" || t == "CONT");
            // entry location
            let before = s.probe(false);
            let (entry_line, entry_idx, entry_tokens): (Option<u64>, usize, Vec<String>) = match &op {
                Op::Line(t) if t == "RUN" => {
                    // the first stored line
                    let l = s.list_quiet_first();
                    let toks = s.tokens_of_line(l);
                    (l, 0, toks)
                }
                Op::Line(t) if t == "CONT" => match before.breakpoint {
                    // (all IF words of the line are counted: index 0)
                    Some((l, _i)) => {
                        let toks = s.tokens_of_line(Some(l));
                        (Some(l), 0, toks)
                    }
                    None => (None, 0, vec![]),
                },
                _ => (before.location.0, before.location.1, before.line_tokens.clone()),
            };
            let Some(call) = s.apply(&op) else {
                return v("harness", "illegal op".into(), format!("{:?} in {:?}", op, s.state()));
            };
            ctx.calls(1);
            if let Some(p) = call.panicked() {
                return v("panic", format!("panic@{p}"), format!("{:?} unwound: {p}", op));
            }
            if evaluating {
                evaluating_calls += 1;
                let traces: Vec<u64> = call.recs.iter().filter_map(|r| if let Rec::Trace(n) = r { Some(*n) } else { None }).collect();
                let prints = call.recs.iter().filter(|r| matches!(r, Rec::Print(_))).count();
                let inputs = call.recs.iter().filter(|r| matches!(r, Rec::Extra | Rec::Reenter)).count();
                let breaks_n = call.recs.iter().filter(|r| matches!(r, Rec::Break(_))).count();
                // (a)
                if let Some(l) = entry_line {
                    if let Some(bad) = traces.iter().find(|t| **t != l) {
                        return v(
                            "trace-other-line",
                            format!("entry line {l} traced {bad}"),
                            format!("{:?} entered at line {l} token {entry_idx} but traced {:?}", op, traces),
                        );
                    }
                }
                // (b)
                let tokens: Vec<String> = entry_tokens;
                let ifs = count_ifs(&tokens, entry_idx);
                if traces.len() > 1 + ifs {
                    return v(
                        "more-than-one-statement",
                        format!("traces={} ifs={}", traces.len(), ifs),
                        format!("{:?} entered at line {:?} token {entry_idx} produced {} trace records; the line has {} IF tokens from there: {:?}", op, entry_line, traces.len(), ifs, tokens),
                    );
                }
                if traces.len() >= 2 {
                    ctx.count("reach.if_plus_selected_statement");
                }
                // (c)
                if prints > 1 || inputs > 1 || breaks_n > 1 {
                    return v(
                        "more-than-one-statement",
                        format!("prints={prints} inputs={inputs} breaks={breaks_n}"),
                        format!("{:?} at line {:?} produced {:?}", op, entry_line, call.recs),
                    );
                }
                // (e)
                if !c.uses_functions && !tokens.is_empty() {
                    let after = s.probe(false);
                    let delta = after.token_reads.saturating_sub(before.token_reads);
                    let bound = 64 * tokens.len() as u64 + 64;
                    let ratio = delta * 100 / (tokens.len() as u64).max(1);
                    max_ratio_x100 = max_ratio_x100.max(ratio);
                    if delta > bound {
                        return v(
                            "work-not-bounded-by-line",
                            format!("reads={delta} bound={bound}"),
                            format!("{:?} at line {:?} ({} tokens) read {} tokens in one call", op, entry_line, tokens.len(), delta),
                        );
                    }
                }
            }
            if call.err().is_some() {
                break;
            }
            if s.state() == St::Idle && s.probe(false).breakpoint.is_some() && matches!(call.recs.last(), Some(Rec::Break(_))) {
                stops += 1;
                if stops > 100 {
                    break;
                }
                pending = Some(Op::Line("CONT".into()));
            }
        }
        if evaluating_calls >= 5 {
            ctx.nontrivial(fnv(format!("{:?}{:?}{:?}", c.prog.lines.iter().map(print_line).collect::<Vec<_>>(), c.raw_lines, c.breaks).as_bytes()));
        }
        let key = "max.token_reads_per_line_token_x100";
        let cur = ctx.stats.counters.get(key).copied().unwrap_or(0);
        if max_ratio_x100 > cur {
            ctx.stats.counters.insert(key.to_string(), max_ratio_x100);
        }
        None
    }

    fn view(c: &Case) -> serde_json::Value {
        serde_json::json!({"session": crate::lockstep::prog_view(&c.prog), "raw_lines": c.raw_lines.iter().map(|l| l.chars().take(160).collect::<String>()).collect::<Vec<_>>(), "break+CONT_at_boundaries": c.breaks})
    }

    fn shrink(c: &Case) -> Vec<Case> {
        let mut out = vec![];
        for r in crate::engine::shrink_vec(&c.raw_lines) {
            let mut n = c.clone();
            n.raw_lines = r;
            out.push(n);
        }
        for b in crate::engine::shrink_vec(&c.breaks) {
            let mut n = c.clone();
            n.breaks = b;
            out.push(n);
        }
        for p in shrink_prog_case(&c.prog) {
            let mut n = c.clone();
            n.prog = p;
            out.push(n);
        }
        out
    }
}
