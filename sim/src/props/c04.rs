//! C04 — the program store is a last-writer-wins map, listed and run in line order.
//! History of add / replace / delete / failed-edit operations against a BTreeMap
//! model, interleaved with LIST and RUN; the fault dimension is *when* the edits
//! arrive: idle, at a STOP breakpoint, at a host break in the middle of a run.

use crate::engine::{shrink_vec, Ctx, Meta, Prop, Tier, Violation};
use crate::prng::{fnv, Rng};
use crate::sess::{Op, Rec, Res, Sess, St};
use serde::{Deserialize, Serialize};
use std::collections::BTreeMap;

pub struct C04;

#[derive(Clone, Debug, PartialEq, Serialize, Deserialize)]
pub enum Body {
    Print,
    Rem,
    Stop,
    /// a line whose text is only statement separators (`:` / `::`): non-empty, does nothing
    Colons,
    /// an assignment to a variable whose name is also a command word (`TRACE = 5`): a program line like
    /// any other, not the command
    Word,
    /// `DATA 0` / `DATA -0`: deliberately *not* tagged — two texts whose items compare equal as numbers
    /// (0.0 == -0.0) and still are different texts; the last one entered is the stored one
    Data,
    /// untagged `PRINT \"hello\"`, `\"Hello\"`, `\"HELLO\"` (texts that differ only in letter case inside a string) / a statement text that begins with a digit (`10 20`, `10 7=1`): tokenizes, so it is the text of
    /// line 10 (not line 1020, not a deletion); RUN reaching it fails with a syntax error in that line
    Num,
    /// untagged `PRINT "hello"` / `"Hello"` / `"HELLO"`: texts that differ only in letter case inside a string
    /// are different texts; which one a line shows must not depend on what else is, or was, stored
    Say,
}

const SAY: &[&str] = &["hello", "Hello", "HELLO"];

/// how the expected run of the stored program ends
#[derive(Clone, Copy, Debug, PartialEq)]
enum End {
    Finished,
    Stop(u64),
    /// a `Num` line: not a statement
    Error(u64),
}

const WORDS: &[&str] = &["TRACE", "STATS", "LIST", "RUN", "NEW"];

#[derive(Clone, Debug, PartialEq, Serialize, Deserialize)]
pub enum StoreOp {
    /// `<key spelling> <body tagged with tag>`
    Enter { spelling: String, key: u64, body: Body, tag: u32 },
    /// bare number (with blanks)
    Delete { spelling: String, key: u64 },
    /// same key, text that cannot tokenize — or a numeral that is not a line number
    Failed { text: String },
    List,
    /// RUN to completion (STOPs are left pending: the next ops happen at the breakpoint)
    Run { tracing: bool },
    /// RUN, tick k times, break in: the next ops happen at that breakpoint
    RunBreak(u32),
    Cont,
}

#[derive(Clone, Debug, Serialize, Deserialize)]
pub struct Case {
    pub ops: Vec<StoreOp>,
}

fn key_pool(rng: &mut Rng) -> Vec<u64> {
    let base = rng.below(1000);
    let mut v = vec![0, u64::MAX, u64::MAX - 1, base, base + 1, 1 << 63, 9, 10, 11];
    for _ in 0..rng.usize(4) {
        v.push(rng.next());
    }
    for _ in 0..rng.usize(4) {
        v.push(rng.below(100));
    }
    let n = 2 + rng.usize(v.len() - 2);
    rng.shuffle(&mut v);
    v.truncate(n);
    v
}

fn spell(rng: &mut Rng, key: u64) -> String {
    match rng.below(6) {
        0 => format!("{:05}", key),
        1 => format!("  {}", key),
        2 => format!("\t0{}", key),
        3 if key < 1000 => format!("{:025}", key),
        _ => format!("{}", key),
    }
}

fn body_text(body: &Body, tag: u32) -> String {
    match body {
        Body::Print => format!("PRINT \"k{}\"", tag),
        Body::Rem => format!("REM k{}", tag),
        Body::Stop => "STOP".to_string(),
        Body::Colons => if tag % 2 == 0 { ":".to_string() } else { ": :".to_string() },
        Body::Word => format!("{} = {}", WORDS[tag as usize % WORDS.len()], tag),
        Body::Data => if tag % 2 == 0 { "DATA 0".to_string() } else { "DATA -0".to_string() },
        Body::Num => if tag % 2 == 0 { format!("{}", tag) } else { format!("{}=1", tag) },
        Body::Say => format!("PRINT \"{}\"", SAY[tag as usize % 3]),
    }
}

fn listed(key: u64, body: &Body, tag: u32) -> String {
    match body {
        Body::Print => format!("{} PRINT \"k{}\"\n", key, tag),
        Body::Rem => format!("{} REM k{}\n", key, tag),
        Body::Stop => format!("{} STOP\n", key),
        Body::Colons => format!("{} {}\n", key, if tag % 2 == 0 { ":" } else { ": :" }),
        Body::Word => format!("{} {} = {}\n", key, WORDS[tag as usize % WORDS.len()], tag),
        Body::Data => format!("{} DATA {}\n", key, if tag % 2 == 0 { "0" } else { "-0" }),
        Body::Num => if tag % 2 == 0 { format!("{} {}\n", key, tag) } else { format!("{} {} = 1\n", key, tag) },
        Body::Say => format!("{} PRINT \"{}\"\n", key, SAY[tag as usize % 3]),
    }
}

type ModelMap = BTreeMap<u64, (Body, u32)>;

/// expected output of running the stored program from `from` (None = first line) to the next STOP or the end
fn expected_run(m: &ModelMap, from: Option<u64>) -> (Vec<Rec>, Vec<u64>, End) {
    let mut recs = vec![];
    let mut path = vec![];
    for (k, (b, t)) in m.iter() {
        if let Some(f) = from {
            if *k <= f {
                continue;
            }
        }
        path.push(*k);
        match b {
            Body::Print => recs.push(Rec::Print(format!("k{}\n", t))),
            Body::Say => recs.push(Rec::Print(format!("{}\n", SAY[*t as usize % 3]))),
            Body::Rem | Body::Colons | Body::Word | Body::Data => {}
            Body::Stop => {
                recs.push(Rec::Break(Some(*k)));
                return (recs, path, End::Stop(*k));
            }
            Body::Num => return (recs, path, End::Error(*k)),
        }
    }
    (recs, path, End::Finished)
}

fn stop_of(e: End) -> Option<u64> {
    match e {
        End::Stop(k) => Some(k),
        _ => None,
    }
}

fn check(c: &Case, ctx: &mut Ctx) -> Option<Violation> {
    let v = |class: &str, fp: String, detail: String| Some(Violation::new(&format!("C04/{class}"), fp, detail));
    let mut s = Sess::new();
    let mut m: ModelMap = BTreeMap::new();
    // where a pending STOP breakpoint sits (model side)
    let mut stopped_at: Option<u64> = None;
    let mut at_host_break = false;
    let mut replaced = 0u32;
    for (i, op) in c.ops.iter().enumerate() {
        // bring the session to idle if a previous RunBreak left it mid-run is not needed: Break makes it idle
        let situation = if stopped_at.is_some() {
            "@stop"
        } else if at_host_break {
            "@break"
        } else {
            "@idle"
        };
        match op {
            StoreOp::Enter { spelling, key, body, tag } => {
                // a spelling that ends in `~` is typed without a blank between number and statement (`10PRINT "k1"`)
                let text = match spelling.strip_suffix('~') {
                    Some(sp) => format!("{}{}", sp, body_text(body, *tag)),
                    None => format!("{} {}", spelling, body_text(body, *tag)),
                };
                let call = s.apply(&Op::Line(text.clone()))?;
                ctx.calls(1);
                if let Some(p) = call.panicked() {
                    return v("panic", format!("panic@{p}"), format!("op {i} `{text}` unwound: {p}"));
                }
                if !matches!(call.res, Res::Ok) || call.state != St::Idle || !call.recs.is_empty() {
                    return v("enter-rejected", format!("{:?}", call.err().map(|e| e.kind.clone())), format!("op {i} `{text}` gave {:?} {:?}", call.res, call.recs));
                }
                if m.insert(*key, (body.clone(), *tag)).is_some() {
                    replaced += 1;
                    ctx.count(&format!("fault.replace{situation}"));
                } else {
                    ctx.count(&format!("fault.add{situation}"));
                }
                stopped_at = None;
                at_host_break = false;
            }
            StoreOp::Delete { spelling, key } => {
                let call = s.apply(&Op::Line(spelling.clone()))?;
                ctx.calls(1);
                if let Some(p) = call.panicked() {
                    return v("panic", format!("panic@{p}"), format!("op {i} `{spelling}` unwound: {p}"));
                }
                if !matches!(call.res, Res::Ok) || call.state != St::Idle || !call.recs.is_empty() {
                    return v("delete-rejected", "".into(), format!("op {i} `{spelling}` gave {:?} {:?}", call.res, call.recs));
                }
                if m.remove(key).is_some() {
                    replaced += 1;
                    ctx.count(&format!("fault.delete{situation}"));
                } else {
                    ctx.count("fault.delete_absent");
                }
                // (the interpreter treats even a no-op deletion as an edit: CONT is impossible afterwards;
                // the statement is silent about that, so the model follows the code's conservative choice
                // only for its own bookkeeping of where a CONT would resume)
                stopped_at = None;
                at_host_break = false;
            }
            StoreOp::Failed { text } => {
                let call = s.apply(&Op::Line(text.clone()))?;
                ctx.calls(1);
                if let Some(p) = call.panicked() {
                    return v("panic", format!("panic@{p}"), format!("op {i} `{text}` unwound: {p}"));
                }
                if call.err().is_none() {
                    return v("failed-edit-accepted", "".into(), format!("op {i} `{text}` was accepted: {:?}", call.recs));
                }
                ctx.count(&format!("fault.failed_edit{situation}"));
            }
            StoreOp::List => {
                let call = s.apply(&Op::Line("LIST".into()))?;
                ctx.calls(1);
                if let Some(p) = call.panicked() {
                    return v("panic", format!("panic@{p}"), format!("LIST unwound: {p}"));
                }
                let got: Vec<String> = call
                    .recs
                    .iter()
                    .filter_map(|r| match r {
                        Rec::Print(s) => Some(s.clone()),
                        _ => None,
                    })
                    .collect();
                let want: Vec<String> = m.iter().map(|(k, (b, t))| listed(*k, b, *t)).collect();
                if got != want {
                    let k = got.iter().zip(want.iter()).take_while(|(a, b)| a == b).count();
                    return v(
                        "listing-differs",
                        format!("got {} lines want {}", got.len(), want.len()),
                        format!("op {i} LIST: line {k}: got {:?} want {:?}", got.get(k), want.get(k)),
                    );
                }
                // twin: only the model's final pairs, once each, ascending
                let mut t = Sess::new();
                for (k, (b, tg)) in m.iter() {
                    t.apply(&Op::Line(format!("{} {}", k, body_text(b, *tg))));
                }
                let tl = t.list().unwrap_or_default();
                ctx.calls(m.len() as u64 + 1);
                if tl != got {
                    return v("twin-listing-differs", "".into(), format!("op {i}: history listing {:?} vs twin listing {:?}", got, tl));
                }
                ctx.count("reach.list_checked");
            }
            StoreOp::Run { tracing } => {
                s.apply(&Op::Flags(*tracing, false));
                let calls = s.line_and_settle("RUN", 5000);
                ctx.calls(calls.len() as u64);
                let mut recs = vec![];
                let (want, path, end) = expected_run(&m, None);
                let mut failed = None;
                for cl in &calls {
                    if let Some(p) = cl.panicked() {
                        return v("panic", format!("panic@{p}"), format!("op {i} RUN unwound: {p}"));
                    }
                    if let Some(e) = cl.err() {
                        failed = Some(e.clone());
                    }
                    recs.extend(cl.recs.iter().cloned());
                }
                match (end, &failed) {
                    (End::Error(k), Some(e)) if e.line == Some(k) && e.kind.starts_with("Syntax") => ctx.count("reach.run_failed_at_num_line"),
                    (End::Error(k), _) => {
                        return v("run-order-differs", "num-line".into(), format!("op {i} RUN: line {k} is not a statement, a syntax error in {k} was expected, got {:?}", failed.map(|e| e.text)))
                    }
                    (_, Some(e)) => return v("run-failed", e.kind.clone(), format!("op {i} RUN failed: {}", e.text)),
                    _ => {}
                }
                s.apply(&Op::Flags(false, false));
                let stop = stop_of(end);
                let got_out: Vec<Rec> = recs.iter().filter(|r| !matches!(r, Rec::Trace(_))).cloned().collect();
                if got_out != want {
                    return v("run-order-differs", "output".into(), format!("op {i} RUN printed {:?}, the store says {:?}", got_out, want));
                }
                if *tracing {
                    let mut tr: Vec<u64> = recs.iter().filter_map(|r| if let Rec::Trace(n) = r { Some(*n) } else { None }).collect();
                    tr.dedup();
                    if tr != path {
                        return v("run-order-differs", "trace".into(), format!("op {i} RUN traced {:?}, the store says {:?}", tr, path));
                    }
                    ctx.count("reach.trace_order_checked");
                }
                stopped_at = stop;
                at_host_break = false;
                ctx.count("reach.run_checked");
            }
            StoreOp::RunBreak(k) => {
                let mut recs = vec![];
                let c0 = s.apply(&Op::Line("RUN".into()))?;
                recs.extend(c0.recs.iter().cloned());
                let mut n = 0;
                while s.state() == St::Running && n < *k {
                    let cl = s.apply(&Op::Tick)?;
                    if let Some(p) = cl.panicked() {
                        return v("panic", format!("panic@{p}"), format!("op {i} tick unwound: {p}"));
                    }
                    recs.extend(cl.recs.iter().cloned());
                    n += 1;
                }
                ctx.calls(n as u64 + 1);
                let (want, _path, end) = expected_run(&m, None);
                let stop = stop_of(end);
                if s.state() == St::Running {
                    s.apply(&Op::Break);
                    at_host_break = true;
                    stopped_at = None;
                    ctx.count("fault.break_mid_run");
                    if !(recs.len() <= want.len() && recs[..] == want[..recs.len()]) {
                        return v("run-order-differs", "prefix".into(), format!("op {i} partial RUN printed {:?}, the store says {:?}", recs, want));
                    }
                } else {
                    at_host_break = false;
                    stopped_at = stop;
                    if recs != want {
                        return v("run-order-differs", "output".into(), format!("op {i} RUN printed {:?}, the store says {:?}", recs, want));
                    }
                }
            }
            StoreOp::Cont => {
                if let Some(at) = stopped_at {
                    let calls = s.line_and_settle("CONT", 5000);
                    ctx.calls(calls.len() as u64);
                    let (want, _p, end) = expected_run(&m, Some(at));
                    let mut recs = vec![];
                    for cl in &calls {
                        if let Some(p) = cl.panicked() {
                            return v("panic", format!("panic@{p}"), format!("op {i} CONT unwound: {p}"));
                        }
                        if let Some(e) = cl.err() {
                            match end {
                                End::Error(k) if e.line == Some(k) && e.kind.starts_with("Syntax") => {}
                                _ => return v("cont-failed", e.kind.clone(), format!("op {i} CONT after STOP at {at} failed: {}", e.text)),
                            }
                        }
                        recs.extend(cl.recs.iter().cloned());
                    }
                    if let End::Error(k) = end {
                        if !calls.iter().any(|cl| cl.err().is_some()) {
                            return v("run-order-differs", "num-line".into(), format!("op {i} CONT from {at}: line {k} is not a statement, a syntax error in {k} was expected"));
                        }
                    }
                    let stop = stop_of(end);
                    if recs != want {
                        return v("run-order-differs", "cont".into(), format!("op {i} CONT from {at} printed {:?}, the store says {:?}", recs, want));
                    }
                    stopped_at = stop;
                    ctx.count("reach.cont_checked");
                }
            }
        }
    }
    if m.len() >= 3 && replaced >= 1 {
        ctx.nontrivial(fnv(format!("{:?}", c.ops).as_bytes()));
    }
    if m.contains_key(&u64::MAX) {
        ctx.count("reach.key_u64_max_stored");
    }
    if m.contains_key(&0) {
        ctx.count("reach.key_0_stored");
    }
    None
}

impl Prop for C04 {
    const ID: &'static str = "C04";
    type Case = Case;

    fn meta() -> Meta {
        Meta {
            level: "exploration",
            rule: "Histories of 1-200 store operations over a per-run key pool that always may contain 0, 2^64-1, 2^64-2, 2^63, two adjacent keys and random u64 keys, spelled plainly, with leading zeros (up to 25 digits) or leading blanks/tabs: add, replace, delete (bare number), failed edit (illegal character, unterminated string, 1.2.3, the numerals 2^64 .. 2^64+3, bare or with text, which are not line numbers); bodies are PRINT / REM / STOP / a line of statement separators only / an assignment to a variable named like a command (TRACE, STATS, LIST, RUN, NEW) / untagged `DATA 0` and `DATA -0` (texts whose items compare equal as numbers and are still different texts: the last one entered is the stored one) / untagged `PRINT \"hello\"`, `\"Hello\"`, `\"HELLO\"` (texts that differ only in letter case inside a string) / a statement text that begins with a digit (`10 20`, `10 7=1`: it tokenizes, so it is the text of line 10 — not line 1020 and not a deletion — and RUN must fail with a syntax error in exactly that line after printing everything before it); one entry in six is typed without a blank between number and statement; failed edits include a number followed only by Unicode blanks (NBSP, U+3000, VT, LF) and apostrophe comments, interleaved with LIST, RUN (with and without tracing), RUN broken after k ticks, and CONT — so that edits also arrive at a STOP breakpoint and at a host break in the middle of a run. Oracle: BTreeMap<u64,(body,tag)> reference; LIST must equal the map rendered in ascending key order AND the LIST of a twin interpreter that only ever received the final pairs once each in ascending order; RUN must print the tags (and trace the keys) in ascending key order up to the first STOP, CONT continues after it. Every body carries a unique tag so that each listed/printed line is attributable to one write. distinct_nontrivial = distinct op-sequence hashes among histories that end with >= 3 stored lines and performed >= 1 replace/delete.",
            real: &["abasic-core Interpreter program store (ProgramLines: HashMap + BTreeSet), line-number parser, LIST, RUN line ordering"],
            stub: &["the host", "BTreeMap reference model"],
            assumptions: &[
                "bodies are simple statements (PRINT \"k<tag>\", REM, STOP, separators, one assignment): the property is about the store, not about statement semantics (C03)",
                "which texts fail to tokenize is taken from the pinned dialect: an illegal character outside a string (%, #, a non-ASCII letter, an apostrophe, a blank that only Unicode calls blank), an unterminated string, a malformed numeral; a change of dialect that makes one of them legal would have to be mirrored here",
            ],
            reach: &[
                "reach.key_u64_max_stored",
                "reach.key_0_stored",
                "reach.list_checked",
                "reach.run_checked",
                "reach.trace_order_checked",
                "reach.cont_checked",
                "reach.run_failed_at_num_line",
                "fault.replace@stop",
                "fault.replace@break",
                "fault.failed_edit@idle",
                "fault.delete@idle",
            ],
        }
    }

    fn runs(tier: Tier) -> u64 {
        match tier {
            Tier::Quick => 200_000,
            Tier::Thorough => 6_000_000,
        }
    }

    fn generate(rng: &mut Rng, ctx: &mut Ctx) -> Case {
        let keys = key_pool(rng);
        let n = 1 + rng.usize(match ctx.tier {
            Tier::Quick => 60,
            Tier::Thorough => 200,
        });
        let stops = rng.chance(1, 2);
        // swarm: one history in three may hold DATA 0 / DATA -0 lines, one in four statement texts that begin with a digit
        let datas = rng.chance(1, 3);
        let nums = rng.chance(1, 4);
        let says = rng.chance(1, 3);
        let mut ops = vec![];
        for i in 0..n {
            let key = rng.pick(&keys);
            let op = match rng.below(20) {
                0..=8 => {
                    let body = match rng.below(8) {
                        0 if stops => Body::Stop,
                        1..=2 => Body::Rem,
                        3 => Body::Colons,
                        4 if rng.chance(1, 2) => Body::Word,
                        5 if datas => Body::Data,
                        5 if says => Body::Say,
                        6 if says && !datas => Body::Say,
                        6 if datas && rng.chance(1, 2) => Body::Data,
                        7 if nums && rng.chance(1, 2) => Body::Num,
                        _ => Body::Print,
                    };
                    StoreOp::Enter {
                        // (a Num body typed without the blank would be a longer line number, not this entry)
                        spelling: if rng.chance(1, 6) && body != Body::Num { format!("{}~", key) } else { spell(rng, key) },
                        key,
                        body,
                        tag: i as u32,
                    }
                }
                9..=11 => StoreOp::Delete {
                    spelling: match rng.below(3) {
                        0 => format!("{}   ", key),
                        1 => format!("  0{} ", key),
                        _ => format!("{}", key),
                    },
                    key,
                },
                12..=13 => StoreOp::Failed {
                    text: match rng.below(7) {
                        0 => format!("{} PRINT \"k{}", key, i),
                        1 => format!("{} C = 1.2.3", key),
                        2 => format!("{} PRINT % {}", key, i),
                        // numerals just above 2^64-1 are not line numbers: with text or bare, they change nothing
                        3 => {
                            let n = format!("{}1844674407370955161{}", if rng.chance(1, 4) { "000" } else { "" }, 6 + rng.below(4));
                            if rng.chance(1, 3) {
                                n
                            } else {
                                format!("{} PRINT \"k{}\"", n, i)
                            }
                        }
                        // a number followed only by characters that are blank to Unicode but not to BASIC:
                        // not a deletion, an untokenizable line
                        4 => format!("{}{}", key, rng.pick(&["\u{a0}", " \u{3000} ", "\u{b}", "\n", " \u{2003}", "\u{feff}"])),
                        // no comment shorthand in this dialect: an apostrophe outside a string is an illegal character
                        5 => format!("{} {}", key, rng.pick(&["' note", "PRINT 1 ' note", "'"])),
                        _ => format!("{} é", key),
                    },
                },
                14..=15 => StoreOp::List,
                16..=17 => StoreOp::Run { tracing: rng.chance(1, 3) },
                18 => StoreOp::RunBreak(rng.below(6) as u32),
                _ => StoreOp::Cont,
            };
            ops.push(op);
        }
        ops.push(StoreOp::List);
        ops.push(StoreOp::Run { tracing: true });
        Case { ops }
    }

    fn execute(c: &Case, ctx: &mut Ctx) -> Option<Violation> {
        check(c, ctx)
    }

    fn shrink(c: &Case) -> Vec<Case> {
        shrink_vec(&c.ops).into_iter().map(|ops| Case { ops }).collect()
    }
}
