//! C01 — no host interaction sequence can crash or wedge the interpreter.
//!
//! The simulator is the host: a PRNG-driven scheduler issues only calls the
//! turn-taking protocol allows in the *live* state, with line / reply texts from
//! hostile pools. A monitor runs after every call.

use crate::engine::{shrink_vec, Ctx, Meta, Prop, Tier, Violation};
use crate::hostile::*;
use crate::prng::{fnv_add, Rng};
use crate::sess::{Call, Op, Res, Sess, St};
use serde::{Deserialize, Serialize};

pub struct C01;

#[derive(Clone, Debug, Serialize, Deserialize)]
pub struct Case {
    pub ops: Vec<Op>,
}

struct Knobs {
    max_ops: usize,
    w_prog: u64,
    w_imm: u64,
    w_cmd: u64,
    w_soup: u64,
    w_chars: u64,
    w_boundary: u64,
    w_nest: u64,
    huge_nesting: bool,
    break_pct: u64,
    seed_pct: u64,
}

fn knobs(rng: &mut Rng, tier: Tier) -> Knobs {
    let max_ops = match tier {
        Tier::Quick => 30 + rng.usize(170),
        Tier::Thorough => 30 + rng.usize(600),
    };
    // swarm: each pool is switched off in some runs
    let mut w = |on: u64, hi: u64| if rng.chance(on, 100) { 1 + rng.below(hi) } else { 0 };
    let w_prog = w(85, 8);
    let w_imm = w(80, 6);
    let w_cmd = w(85, 5);
    let w_soup = w(50, 4);
    let w_chars = w(40, 3);
    let w_boundary = w(60, 5);
    let w_nest = w(35, 2);
    Knobs {
        max_ops,
        w_prog: w_prog.max(1),
        w_imm,
        w_cmd: w_cmd.max(1),
        w_soup,
        w_chars,
        w_boundary,
        w_nest,
        huge_nesting: rng.chance(1, 3),
        break_pct: rng.pick(&[0, 2, 5, 10, 30]),
        seed_pct: rng.pick(&[0, 1, 3, 10]),
    }
}

fn ident(rng: &mut Rng) -> &'static str {
    rng.pick(&["A", "B", "X", "Y", "I", "J", "N", "T", "Q"])
}
fn sident(rng: &mut Rng) -> &'static str {
    rng.pick(&["A$", "B$", "X$", "N$"])
}

fn small_expr(rng: &mut Rng, depth: u32) -> String {
    if depth == 0 || rng.chance(2, 5) {
        return match rng.below(9) {
            0..=2 => format!("{}", rng.below(20)),
            3..=4 => ident(rng).to_string(),
            5 => format!("{}({})", ident(rng), rng.below(12)),
            6 => format!("\"{}\"", rng.pick(&["", "A", "HELLO", "é"])),
            7 => sident(rng).to_string(),
            _ => format!("{}.{}", rng.below(10), rng.below(100)),
        };
    }
    let a = small_expr(rng, depth - 1);
    let b = small_expr(rng, depth - 1);
    match rng.below(14) {
        0 => format!("{a} + {b}"),
        1 => format!("{a} - {b}"),
        2 => format!("{a} * {b}"),
        3 => format!("{a} / {b}"),
        4 => format!("{a} ^ {b}"),
        5 => format!("({a})"),
        6 => format!("-{a}"),
        7 => format!("NOT {a}"),
        8 => format!("{a} {} {b}", rng.pick(&["=", "<", ">", "<=", ">=", "<>"])),
        9 => format!("{a} {} {b}", rng.pick(&["AND", "OR"])),
        10 => format!("ABS({a})"),
        11 => format!("INT({a})"),
        12 => format!("RND({a})"),
        _ => format!("FN {}({a})", rng.pick(&["F", "G"])),
    }
}

fn line_no(rng: &mut Rng) -> String {
    match rng.below(10) {
        0 => rng.pick(boundary_line_numbers()).to_string(),
        1..=6 => format!("{}", 10 * (1 + rng.below(12))),
        _ => format!("{}", rng.below(130)),
    }
}

pub fn statement(rng: &mut Rng) -> String {
    let e = |rng: &mut Rng| small_expr(rng, 2);
    match rng.below(30) {
        0..=3 => format!("PRINT {}", e(rng)),
        4 => format!("PRINT {}; {}, {};", e(rng), e(rng), e(rng)),
        5..=6 => format!("{} = {}", ident(rng), e(rng)),
        7 => format!("{} = {}", sident(rng), e(rng)),
        8 => format!("LET {}({}) = {}", ident(rng), e(rng), e(rng)),
        9 => format!("IF {} THEN {}", e(rng), line_no(rng)),
        10 => format!("IF {} THEN {} ELSE {}", e(rng), statement(rng), statement(rng)),
        11 => format!("IF {} THEN {}", e(rng), statement(rng)),
        12 => format!("GOTO {}", line_no(rng)),
        13 => format!("GOSUB {}", line_no(rng)),
        14 => "RETURN".to_string(),
        15 => format!("FOR {} = {} TO {}", ident(rng), e(rng), e(rng)),
        16 => format!("FOR {} = {} TO {} STEP {}", ident(rng), e(rng), e(rng), e(rng)),
        17..=18 => format!("NEXT {}", ident(rng)),
        19 => format!("READ {}, {}", ident(rng), sident(rng)),
        20 => format!("DATA {}, {}, \"x,y\", {}", rng.below(100), rng.pick(&["foo", "1.5", "", "a\"b"]), rng.below(9)),
        21 => "RESTORE".to_string(),
        22 => format!("DIM {}({}, {})", ident(rng), rng.below(12), rng.below(12)),
        23 => format!("DEF FN {}(X) = {}", rng.pick(&["F", "G"]), e(rng)),
        24 => format!("DEF FN F(X) = FN F(X - 1) + {}", e(rng)),
        25 => format!("INPUT {}", rng.pick(&["A", "A$", "B(2)", "X"])),
        26 => "STOP".to_string(),
        27 => "END".to_string(),
        28 => format!("REM {}", char_soup(rng, 6)),
        _ => format!("{} : {}", statement(rng), statement(rng)),
    }
}

fn hostile_line(rng: &mut Rng, k: &Knobs, ctx: &mut Ctx) -> String {
    let total = k.w_soup + k.w_chars + k.w_boundary + k.w_nest;
    if total == 0 {
        return statement(rng);
    }
    let mut r = rng.below(total);
    let body = if r < k.w_soup && rng.chance(1, 3) {
        ctx.count("fault.hostile_text.foreign_form");
        foreign_form(rng)
    } else if r < k.w_soup {
        ctx.count("fault.hostile_text.token_soup");
        token_soup(rng, 14)
    } else {
        r -= k.w_soup;
        if r < k.w_chars {
            ctx.count("fault.hostile_text.char_soup");
            char_soup(rng, 24)
        } else {
            r -= k.w_chars;
            if r < k.w_boundary {
                ctx.count("fault.hostile_text.boundary_numeral");
                boundary_statement(rng)
            } else {
                if rng.chance(1, 5) {
                    let n = flat_length(rng, k.huge_nesting);
                    ctx.count("fault.hostile_text.flat_chain");
                    if n >= 100000 {
                        ctx.count("fault.hostile_text.flat_chain>=100000");
                    }
                    flat_chain(rng, n)
                } else {
                    let d = nest_depth(rng, k.huge_nesting);
                    ctx.count("fault.hostile_text.deep_nesting");
                    if d >= 1000 {
                        ctx.count("fault.hostile_text.deep_nesting>=1000");
                    }
                    nested(rng.pick(NEST_KINDS), d)
                }
            }
        }
    };
    if rng.chance(1, 2) {
        format!("{} {}", line_no(rng), body)
    } else {
        body
    }
}

fn reply_text(rng: &mut Rng) -> String {
    match rng.below(12) {
        0..=2 => format!("{}", rng.below(100)),
        3 => "".to_string(),
        4 => "hello".to_string(),
        5 => format!("{}, {}", rng.below(10), rng.below(10)),
        6 => "\"a,b\":c".to_string(),
        7 => any_numeral(rng),
        8 => char_soup(rng, 12),
        9 => "  -4.5  ".to_string(),
        10 => ":".to_string(),
        _ => token_soup(rng, 5),
    }
}

fn choose(rng: &mut Rng, k: &Knobs, st: St, ctx: &mut Ctx) -> Op {
    match st {
        St::NewReq => Op::Replace,
        St::Running => {
            let r = rng.below(100);
            if r < k.break_pct {
                Op::Break
            } else if r < k.break_pct + k.seed_pct {
                Op::Seed(rng.pick(BOUNDARY_SEEDS))
            } else if rng.chance(1, 6) {
                Op::Settle(1 + rng.below(60) as u32)
            } else {
                Op::Tick
            }
        }
        St::Awaiting => {
            if rng.below(100) < k.break_pct.max(5) {
                Op::Break
            } else {
                Op::Reply(reply_text(rng))
            }
        }
        St::Idle => {
            if rng.below(100) < k.seed_pct {
                return if rng.chance(1, 2) {
                    Op::Seed(rng.pick(BOUNDARY_SEEDS))
                } else {
                    Op::Seed(rng.next())
                };
            }
            if rng.chance(1, 40) {
                return Op::Flags(rng.chance(1, 2), rng.chance(1, 2));
            }
            let hostile = k.w_soup + k.w_chars + k.w_boundary + k.w_nest;
            let total = k.w_prog + k.w_imm + k.w_cmd + hostile;
            let mut r = rng.below(total);
            if r < k.w_prog {
                return Op::Line(format!("{} {}", line_no(rng), statement(rng)));
            }
            r -= k.w_prog;
            if r < k.w_imm {
                return Op::Line(statement(rng));
            }
            r -= k.w_imm;
            if r < k.w_cmd {
                let c = match rng.below(10) {
                    0..=3 => "RUN",
                    4 => "CONT",
                    5 => "LIST",
                    6 => "NEW",
                    _ => rng.pick(COMMANDS),
                };
                let c = if rng.chance(1, 8) {
                    format!("  {} {}", c.to_lowercase(), token_soup(rng, 3))
                } else {
                    c.to_string()
                };
                return Op::Line(c);
            }
            if rng.chance(1, 10) {
                // delete a line
                return Op::Line(line_no(rng));
            }
            Op::Line(hostile_line(rng, k, ctx))
        }
    }
}

/// The statement the tick about to be made executes, if it is a bare control transfer (GOSUB / GOTO /
/// RETURN / NEXT v at the start of a statement of a numbered line): whatever goes wrong in it — no such
/// line, no frame, no loop, the frame cap — is an error *of that line*.
fn control_statement_at_entry(s: &Sess, op: &Op) -> Option<u64> {
    if !matches!(op, Op::Tick) || s.state() != St::Running {
        return None;
    }
    let p = s.probe(false);
    let line = p.location.0?;
    let t = p.line_tokens.get(p.location.1)?;
    if matches!(t.as_str(), "GOSUB" | "GOTO" | "RETURN" | "NEXT") {
        Some(line)
    } else {
        None
    }
}

fn error_names_the_statement_line(entry: Option<u64>, call: &Call) -> Option<Violation> {
    let (Some(l), Some(e)) = (entry, call.err()) else { return None };
    if e.line != Some(l) {
        return Some(Violation::new(
            "C01/error-names-another-line",
            format!("{} entry line vs error line", e.kind),
            format!("a control statement of line {l} failed with `{}`, which names line {:?}: the error cannot be rendered as the offending source line", e.text, e.line),
        ));
    }
    None
}

fn is_dangerous(op: &Op) -> bool {
    match op {
        Op::Line(t) | Op::Reply(t) => t.len() > 600,
        _ => false,
    }
}

fn caret_ok(lines: &[String]) -> bool {
    if lines.is_empty() {
        return true;
    }
    if lines.len() != 2 {
        return false;
    }
    let c = &lines[1];
    let t = c.trim_start_matches(' ');
    !t.is_empty() && t.chars().all(|ch| ch == '^')
}

struct Monitor {
    since_canary: u32,
    statements: u64,
    faults: u64,
    shape: u64,
}

impl Monitor {
    fn new() -> Monitor {
        Monitor {
            since_canary: 0,
            statements: 0,
            faults: 0,
            shape: 0xcbf29ce484222325,
        }
    }

    /// oracle after one call
    fn check(&mut self, op: &Op, before: St, call: &Call) -> Option<Violation> {
        let kind = match op {
            Op::Line(_) => 1u8,
            Op::Tick => 2,
            Op::Reply(_) => 3,
            Op::Break => 4,
            Op::Replace => 5,
            Op::Seed(_) => 6,
            Op::Flags(..) => 7,
            Op::Settle(_) => 8,
        };
        let rk = match &call.res {
            Res::Ok => 0u8,
            Res::Err(_) => 1,
            Res::Panic(_) => 2,
        };
        fnv_add(&mut self.shape, &[kind, rk, call.state as u8]);
        if before == St::Running {
            self.statements += 1;
        }
        match &call.res {
            Res::Panic(p) => {
                return Some(Violation::new(
                    "C01/panic",
                    format!("panic@{}", p),
                    format!("{:?} unwound: {}", op_brief(op), p),
                ));
            }
            Res::Err(e) => {
                fnv_add(&mut self.shape, e.kind.as_bytes());
                if call.state != St::Idle {
                    return Some(Violation::new(
                        "C01/error-not-idle",
                        format!("{} leaves state {:?}", e.kind, call.state),
                        format!("{:?} returned {} but state is {:?}", op_brief(op), e.text, call.state),
                    ));
                }
                match &e.caret {
                    Err(p) => {
                        return Some(Violation::new(
                            "C01/caret-panic",
                            format!("panic@{}", p),
                            format!("rendering the caret for {} unwound: {}", e.text, p),
                        ));
                    }
                    Ok(lines) => {
                        if !caret_ok(lines) {
                            return Some(Violation::new(
                                "C01/caret-malformed",
                                e.kind.clone(),
                                format!("caret lines for {}: {:?}", e.text, lines),
                            ));
                        }
                    }
                }
                if e.text.is_empty() {
                    return Some(Violation::new("C01/empty-error-text", e.kind.clone(), "empty error text"));
                }
                if e.kind.starts_with("Syntax(Tokenization") {
                    // the offending source line of a line that cannot be tokenized is the line just typed
                    if let (Op::Line(typed), Ok(lines)) = (op, &e.caret) {
                        if lines.first() != Some(typed) {
                            return Some(Violation::new(
                                "C01/caret-wrong-line",
                                format!("tokenization error attributed to line {:?}", e.line),
                                format!("`{}` for the typed line {:?} is rendered as {:?} (line {:?})", e.text, typed, lines, e.line),
                            ));
                        }
                    }
                }
            }
            Res::Ok => {}
        }
        if call.state == St::NewReq {
            let is_new = matches!(op, Op::Line(t) if t.split_ascii_whitespace().next().map(|w| w.eq_ignore_ascii_case("NEW")).unwrap_or(false));
            if !is_new {
                return Some(Violation::new(
                    "C01/unexpected-new-request",
                    "NewInterpreterRequested without NEW",
                    format!("{:?} left the transient state", op_brief(op)),
                ));
            }
        }
        None
    }
}

fn op_brief(op: &Op) -> String {
    let s = format!("{:?}", op);
    if s.len() > 120 {
        let mut cut = 120;
        while !s.is_char_boundary(cut) {
            cut -= 1;
        }
        format!("{}…(len {})", &s[..cut], s.len())
    } else {
        s
    }
}

/// the first caret line is the offending stored line as LIST renders it (minus the number prefix)
/// between two host calls no evaluation is in progress: a residual nesting depth means every later
/// expression has less room before the OUT OF MEMORY guard fires (a creeping wedge)
fn no_residual_nesting(s: &Sess, op: &Op) -> Option<Violation> {
    if s.poisoned {
        return None;
    }
    let p = s.probe(false);
    if s.state() == St::Running && p.location.1 >= p.line_tokens.len() {
        // Running means "there is a next token to execute": with the position at or past the end of
        // its line a tick executes nothing and leaves the state Running, forever (a livelock)
        return Some(Violation::new(
            "C01/stuck-running",
            "running without a next token".to_string(),
            format!("after {} the interpreter is Running at token {} of a {}-token line: every further tick does nothing and it never becomes idle", op_brief(op), p.location.1, p.line_tokens.len()),
        ));
    }
    let d = p.nesting_depth;
    if d != 0 {
        return Some(Violation::new(
            "C01/residual-nesting-depth",
            "nesting depth not 0 between host calls".to_string(),
            format!("after {} the evaluator's nesting depth is {d}: later lines lose that much room before OUT OF MEMORY", op_brief(op)),
        ));
    }
    None
}

fn caret_matches_listing(s: &mut Sess, call: &Call, ctx: &mut Ctx) -> Option<Violation> {
    let e = call.err()?;
    let n = e.line?;
    let Ok(lines) = &e.caret else { return None };
    if lines.len() != 2 || s.state() != St::Idle {
        return None;
    }
    let listing = s.list()?;
    ctx.calls(1);
    let prefix = format!("{} ", n);
    let want = listing.iter().find(|l| l.starts_with(&prefix)).map(|l| {
        let t = &l[prefix.len()..];
        t.strip_suffix('\n').unwrap_or(t).to_string()
    });
    ctx.count("reach.caret_line_compared");
    match want {
        Some(w) if w == lines[0] => None,
        other => Some(Violation::new(
            "C01/caret-line-differs",
            e.kind.clone(),
            format!("{} : caret shows {:?}, LIST shows {:?}", e.text, lines[0], other),
        )),
    }
}

/// canary: the interpreter still accepts lines
fn canary(s: &mut Sess, ctx: &mut Ctx) -> Option<Violation> {
    if s.state() != St::Idle {
        return None;
    }
    let c = s.apply(&Op::Line("REM".into()))?;
    ctx.calls(1);
    match &c.res {
        Res::Ok if c.state == St::Idle && c.recs.is_empty() => None,
        Res::Panic(p) => Some(Violation::new("C01/panic", format!("panic@{}", p), format!("canary REM unwound: {p}"))),
        other => Some(Violation::new(
            "C01/canary",
            "REM not accepted",
            format!("canary REM gave {:?} state {:?} recs {:?}", other, c.state, c.recs),
        )),
    }
}

fn count_fault(op: &Op, before: St, s: &Sess, ctx: &mut Ctx, m: &mut Monitor) {
    let mut f = |name: &str| {
        ctx.count(name);
        m.faults += 1;
    };
    match op {
        Op::Break => {
            if before == St::Running {
                f("fault.break@running")
            } else {
                f("fault.break@awaiting")
            }
        }
        Op::Seed(v) => {
            if *v >= 1 << 44 {
                f("fault.seed_jump>=2^44")
            } else if *v >= 1 << 33 {
                f("fault.seed_jump>=2^33")
            } else {
                f("fault.seed")
            }
        }
        Op::Flags(..) => f("fault.flags_toggle"),
        Op::Replace => f("fault.new+replace"),
        Op::Reply(t) => {
            if t.is_empty() {
                f("fault.empty_reply")
            } else if t.contains(',') || t.contains(':') {
                f("fault.surplus_reply")
            } else if t.trim().parse::<f64>().is_err() {
                f("fault.non_numeric_reply")
            }
        }
        Op::Line(t) => {
            let p = s.probe(false);
            let w = t.split_ascii_whitespace().next().unwrap_or("").to_ascii_uppercase();
            let numbered = t.trim_start().starts_with(|c: char| c.is_ascii_digit());
            if numbered && p.breakpoint.is_some() {
                f("fault.edit@breakpoint");
            } else if numbered && (!p.stack.is_empty() || !p.loops.is_empty() || p.data_cursor.is_some()) {
                f("fault.edit@inside_gosub|for|data");
            }
            if w == "RUN" && (p.breakpoint.is_some() || !p.variables.is_empty()) {
                f("fault.rerun_mid_session");
            }
            if w == "CONT" {
                f("fault.cont");
            }
        }
        _ => {}
    }
}

impl Prop for C01 {
    const ID: &'static str = "C01";
    type Case = Case;

    fn meta() -> Meta {
        Meta {
            level: "exploration",
            rule: "Each run is one host session: a PRNG-driven scheduler issues only protocol-legal calls in the live interpreter state (Line/Tick/Reply/Break/Replace/Seed/Flags) with texts drawn per run (swarm) from grammar-shaped statements, token soup, arbitrary-UTF-8 soup, boundary numerals, nesting 3..100000 deep and flat chains (one binary or unary operator, separator or list item repeated up to 300000 times); one session in 25 starts with user functions whose bodies are 100-255 parentheses deep and call themselves or each other. An error raised by a bare control statement (GOSUB / GOTO / RETURN / NEXT v) must name the line that statement stands on. distinct_nontrivial counts distinct hashes of the (op kind, result kind, resulting state, error kind) sequence among runs in which at least one fault fired and at least 5 statements executed while Running.",
            real: &["abasic-core (Interpreter, tokenizer, evaluator, program store, error rendering)"],
            stub: &["the host: user/terminal issuing calls, the clock that seeds RND"],
            assumptions: &[
                "worker thread stack = VERIF_STACK_MIB (default 8 MiB, the Linux main-thread default); the Web deployment has a smaller stack",
                "a call that does not return within the watchdog period (45 s) counts as a wedge",
                "protocol-violating host calls (e.g. provide_input while idle) are never issued; they assert by design",
            ],
            reach: &[
                "fault.break@running",
                "fault.break@awaiting",
                "fault.hostile_text.deep_nesting>=1000",
                "fault.seed_jump>=2^44",
                "reach.error_returned",
                "reach.awaiting_input",
            ],
        }
    }

    fn runs(tier: Tier) -> u64 {
        match tier {
            Tier::Quick => 20_000,
            Tier::Thorough => 1_500_000,
        }
    }

    fn generate(_rng: &mut Rng, _ctx: &mut Ctx) -> Case {
        unreachable!("C01 interleaves generation and execution")
    }

    fn run_fresh(rng: &mut Rng, ctx: &mut Ctx) -> (Case, Option<Violation>) {
        let k = knobs(rng, ctx.tier);
        let mut s = Sess::new();
        let mut m = Monitor::new();
        let mut ops: Vec<Op> = Vec::with_capacity(k.max_ops);
        let mut violation = None;
        // pool (a): in 1 of 3 sessions a whole grammar-generated program is typed in first
        let mut preload: Vec<Op> = vec![];
        if rng.chance(1, 3) {
            let mut gk = crate::gen::Knobs::swarm(rng);
            gk.input = rng.chance(1, 2);
            gk.stop = rng.chance(1, 2);
            gk.max_lines = 3 + rng.usize(14);
            let mut grng = rng.fork();
            let (prog, _) = crate::gen::Gen::new(&mut grng, gk).program();
            preload = prog.iter().map(|l| Op::Line(crate::ast::print_line(l))).collect();
            preload.push(Op::Line("RUN".into()));
            preload.reverse();
            ctx.count("reach.grammar_program_session");
        }
        // (every op of such a session is written to the in-flight file first: the call that dies is a short one)
        let mut announce_session = false;
        // pool (b): nesting that is spread over user functions — each body stays below the evaluator's cap,
        // the calls multiply it (self-recursive or mutually recursive bodies 100-250 parentheses deep)
        if preload.is_empty() && rng.chance(1, 25) {
            let d = rng.pick(&[100usize, 200, 250, 255]);
            let (o, c) = ("(".repeat(d), ")".repeat(d));
            let lines = match rng.below(3) {
                0 => vec![format!("10 DEF FN F(X) = {o}FN F(X){c}"), "20 PRINT FN F(1)".to_string()],
                1 => vec![
                    format!("10 DEF FN F(X) = {o}FN G(X){c}"),
                    format!("20 DEF FN G(X) = {o}FN F(X){c}"),
                    "30 PRINT FN F(1)".to_string(),
                ],
                _ => vec![format!("10 DEF FN F(X) = {o}FN F(X + 1) * (X < 20){c}"), "20 PRINT FN F(1) : PRINT FN F(1)".to_string()],
            };
            preload = lines.into_iter().map(Op::Line).collect();
            preload.push(Op::Line("RUN".into()));
            preload.reverse();
            ctx.count("fault.hostile_text.deep_bodies_calling_each_other");
            announce_session = true;
        }
        for _ in 0..k.max_ops {
            let before = s.state();
            let op = match (before, preload.pop()) {
                (St::Idle, Some(op)) => op,
                (_, Some(op)) => {
                    preload.push(op);
                    choose(rng, &k, before, ctx)
                }
                (_, None) => choose(rng, &k, before, ctx),
            };
            ops.push(op.clone());
            if ctx.announce_all || announce_session || is_dangerous(&op) {
                ctx.announce(&Case { ops: ops.clone() });
            }
            count_fault(&op, before, &s, ctx, &mut m);
            let entry = control_statement_at_entry(&s, &op);
            let Some(call) = s.apply(&op) else { continue };
            ctx.calls(1);
            if call.err().is_some() {
                ctx.count("reach.error_returned");
            }
            if let Some(v) = error_names_the_statement_line(entry, &call) {
                violation = Some(v);
                break;
            }
            if call.state == St::Awaiting {
                ctx.count("reach.awaiting_input");
            }
            if let Some(v) = m.check(&op, before, &call) {
                violation = Some(v);
                break;
            }
            if let Some(v) = caret_matches_listing(&mut s, &call, ctx) {
                violation = Some(v);
                break;
            }
            if let Some(v) = no_residual_nesting(&s, &op) {
                violation = Some(v);
                break;
            }
            m.since_canary += 1;
            if m.since_canary >= 16 && s.state() == St::Idle {
                m.since_canary = 0;
                if let Some(v) = canary(&mut s, ctx) {
                    violation = Some(v);
                    break;
                }
            }
        }
        if violation.is_none() {
            // final canary: bring the session to idle the way a host would, then a line must work
            if let Some(v) = final_canary(&mut s, ctx) {
                violation = Some(v);
            }
        }
        if m.faults > 0 && m.statements >= 5 {
            ctx.nontrivial(m.shape);
        }
        (Case { ops }, violation)
    }

    fn dangerous(case: &Case) -> bool {
        case.ops.iter().any(is_dangerous)
    }

    fn execute(case: &Case, ctx: &mut Ctx) -> Option<Violation> {
        let mut s = Sess::new();
        let mut m = Monitor::new();
        for op in &case.ops {
            let before = s.state();
            let entry = control_statement_at_entry(&s, op);
            let Some(call) = s.apply(op) else { continue };
            ctx.calls(1);
            if let Some(v) = error_names_the_statement_line(entry, &call) {
                return Some(v);
            }
            if let Some(v) = m.check(op, before, &call) {
                return Some(v);
            }
            if let Some(v) = caret_matches_listing(&mut s, &call, ctx) {
                return Some(v);
            }
            if let Some(v) = no_residual_nesting(&s, op) {
                return Some(v);
            }
            m.since_canary += 1;
            if m.since_canary >= 16 && s.state() == St::Idle {
                m.since_canary = 0;
                if let Some(v) = canary(&mut s, ctx) {
                    return Some(v);
                }
            }
        }
        final_canary(&mut s, ctx)
    }

    fn shrink(case: &Case) -> Vec<Case> {
        let mut out: Vec<Case> = shrink_vec(&case.ops).into_iter().map(|ops| Case { ops }).collect();
        // simplify texts
        for (i, op) in case.ops.iter().enumerate() {
            let texts: Vec<String> = match op {
                Op::Line(t) | Op::Reply(t) => shrink_text(t),
                _ => vec![],
            };
            for t in texts {
                let mut ops = case.ops.clone();
                ops[i] = match op {
                    Op::Line(_) => Op::Line(t),
                    _ => Op::Reply(t),
                };
                out.push(Case { ops });
            }
            if let Op::Settle(n) = op {
                if *n > 1 {
                    let mut ops = case.ops.clone();
                    ops[i] = Op::Settle(n / 2);
                    out.push(Case { ops });
                }
            }
        }
        out
    }
}

fn final_canary(s: &mut Sess, ctx: &mut Ctx) -> Option<Violation> {
    if s.poisoned {
        return None;
    }
    match s.state() {
        St::Running | St::Awaiting => {
            let c = s.apply(&Op::Break)?;
            ctx.calls(1);
            if let Some(p) = c.panicked() {
                return Some(Violation::new("C01/panic", format!("panic@{}", p), format!("final Break unwound: {p}")));
            }
        }
        St::NewReq => {
            s.apply(&Op::Replace);
        }
        St::Idle => {}
    }
    canary(s, ctx)
}

/// structural text shrinking: halve repeated prefixes/suffixes, drop chunks
pub fn shrink_text(t: &str) -> Vec<String> {
    let mut out = vec![];
    let chars: Vec<char> = t.chars().collect();
    let n = chars.len();
    if n <= 3 {
        return out;
    }
    // balanced halving for nesting: remove k leading units and k trailing ")"
    for unit in ["(", "A(", "-(", "FN F(", "ABS(INT("] {
        let cnt = t.matches(unit).count();
        if cnt >= 4 {
            let close = if unit == "ABS(INT(" { "))" } else { ")" };
            let k = cnt / 2;
            let mut s = t.to_string();
            let mut ok = true;
            for _ in 0..k {
                if let Some(i) = s.find(unit) {
                    s.replace_range(i..i + unit.len(), "");
                } else {
                    ok = false;
                }
                if let Some(i) = s.rfind(close) {
                    s.replace_range(i..i + close.len(), "");
                } else {
                    ok = false;
                }
            }
            if ok {
                out.push(s);
            }
        }
    }
    for unit in ["IF 1 THEN ", "IF 0 THEN X=1 ELSE "] {
        let cnt = t.matches(unit).count();
        if cnt >= 4 {
            out.push(t.replacen(unit, "", cnt / 2));
        }
    }
    if n > 8 {
        let cut = |a: usize, b: usize| -> String { chars[..a].iter().chain(chars[b..].iter()).collect() };
        out.push(cut(n / 2, n));
        out.push(cut(0, n / 2));
        out.push(cut(n / 3, 2 * n / 3));
    }
    out
}
