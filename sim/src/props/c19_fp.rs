//! Fingerprints of the versions of abasic-web/ts/main.ts the transliteration in c19.rs was made from
//! (FNV-1a of the script with comments and whitespace removed; see `normalise_script`).
use super::c19::ScriptVariant;

pub const FINGERPRINTS: &[(u64, ScriptVariant)] = &[
    // pinned commit 8023709
    (0xcdc2150782895283, ScriptVariant::Original),
    // with the loader fix (stop loading at the first line that fails)
    (0xe2ab23f7ceaa390d, ScriptVariant::LoaderStopsOnError),
];
