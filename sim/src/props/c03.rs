//! C03 — programs behave as an independent reference interpreter says they should.
//! Lock-step refinement of the real interpreter against the reference model, also
//! under faults that C07/C17 call transparent (break+CONT, tracing/warnings on).

use crate::engine::{Ctx, Meta, Prop, Tier, Violation};
use crate::gen::{reply_script, Gen, Knobs};
use crate::lockstep::*;
use crate::prng::{fnv, Rng};

pub struct C03;

pub fn gen_case(rng: &mut Rng, ctx: &mut Ctx, input: bool, stop: bool, faults: bool) -> ProgCase {
    gen_case_with(rng, ctx, input, stop, faults, false)
}

pub fn gen_case_with(rng: &mut Rng, ctx: &mut Ctx, input: bool, stop: bool, faults: bool, rnd_input_subscript: bool) -> ProgCase {
    let mut k = Knobs::swarm(rng);
    k.rnd_input_subscript = rnd_input_subscript;
    k.input = input && rng.chance(2, 3);
    k.stop = stop && rng.chance(1, 2);
    if ctx.tier == Tier::Thorough && rng.chance(1, 4) {
        k.max_lines += 20;
    }
    let mut grng = rng.fork();
    let (lines, info) = Gen::new(&mut grng, k.clone()).program();
    let replies = reply_script(rng, info.inputs * 2 + 2);
    let tick_cap = match ctx.tier {
        Tier::Quick => 1500,
        Tier::Thorough => 6000,
    };
    let mut breaks = vec![];
    let mut tracing = false;
    let mut warnings = false;
    if faults {
        let n = rng.usize(6);
        for _ in 0..n {
            breaks.push(rng.below(120) as u32);
        }
        tracing = rng.chance(1, 3);
        warnings = rng.chance(1, 3);
    }
    ProgCase {
        lines,
        order_seed: rng.next() | 1,
        seed: if rng.chance(1, 3) { rng.next() } else { rng.below(1000) },
        replies,
        breaks,
        tracing,
        warnings,
        tick_cap,
        await_breaks: vec![],
        stop_cmds: vec![],
        trace_via_command: false,
            reply_breaks: vec![],
    }
}

pub fn nontrivial_hash(c: &ProgCase, o: &LockOutcome) -> Option<u64> {
    if o.ticks < 5 {
        return None;
    }
    let shape = format!(
        "{:?}|{}|{}|{}|{:?}|{}",
        c.lines.iter().map(|l| crate::ast::print_line_body(&l.stmts)).collect::<Vec<_>>(),
        o.ticks,
        o.inputs_answered,
        o.stops,
        o.error,
        o.breaks_fired
    );
    Some(fnv(shape.as_bytes()))
}

pub fn reach_counts(o: &LockOutcome, ctx: &mut Ctx) {
    let m = &o.model;
    if m.max_frames >= 2 {
        ctx.count("reach.gosub_depth>=2");
    }
    if m.max_frames >= 32 {
        ctx.count("reach.frame_cap_32");
    }
    if m.max_loops >= 2 {
        ctx.count("reach.nested_for>=2");
    }
    if m.forgot_inner_loops > 0 {
        ctx.count("reach.next_forgot_inner_loop");
    }
    if m.implicit_arrays > 0 {
        ctx.count("reach.implicit_array");
    }
    if m.fn_calls > 0 {
        ctx.count("reach.fn_call");
    }
    if o.error.is_none() && !o.capped {
        ctx.count("reach.ran_to_completion");
    }
}

impl Prop for C03 {
    const ID: &'static str = "C03";
    type Case = ProgCase;

    fn meta() -> Meta {
        Meta {
            level: "exploration",
            rule: "Each run: a structured program from an AST grammar (LET, PRINT ;/, IF/THEN/ELSE forms, GOTO, GOSUB/RETURN, FOR/STEP/NEXT incl. NEXT of outer variables, READ/DATA/RESTORE, DIM + 1-3 dim cells, implicit arrays, DEF FN with shadowing/dynamic scoping, END, RND, optional intended runtime failures), printed to numbered BASIC, entered in shuffled order into the real interpreter and executed in lock-step with the reference model (per segment: records, state, error kind+line; at every error-free segment end also the scalar variables and array shapes; where the program can be resumed — awaiting input or at a STOP — also the defined functions, open-loop table and frame count); half of the runs also inject transparent faults (break+CONT at PRNG-chosen turn boundaries, tracing/warnings on). distinct_nontrivial = distinct hashes of (program text, ticks, inputs, stops, final error, breaks fired) among runs that executed >= 5 turns.",
            real: &["abasic-core Interpreter (tokenizer, program store, statement and expression evaluators, RNG)"],
            stub: &["the host (enters lines, ticks, breaks, CONT)", "reference model: sim/src/model.rs executes the generator's AST (no tokenizer/parser shared)"],
            assumptions: &[
                "reference model rules are those of DESIGN.md Appendix A; the generator stays inside the documented region (identifier alphabet C J K Q V W Y Z so blanks-insensitive keyword matching cannot re-split names; canonical numerals; no IF inside a THEN that has an ELSE)",
                "numbers are compared as printed by Rust Display, computed with the same f64 operations on the same machine",
                "non-terminating programs are cut at the tick cap and compared as a prefix",
            ],
            reach: &[
                "reach.gosub_depth>=2",
                "reach.nested_for>=2",
                "reach.next_forgot_inner_loop",
                "reach.implicit_array",
                "reach.fn_call",
                "reach.ran_to_completion",
                "reach.error.OutOfData",
                "reach.error.BadSubscript",
                "reach.error.OutOfMemory(StackOverflow)",
                "fault.break+cont",
            ],
        }
    }

    fn runs(tier: Tier) -> u64 {
        match tier {
            Tier::Quick => 600_000,
            Tier::Thorough => 20_000_000,
        }
    }

    fn generate(rng: &mut Rng, ctx: &mut Ctx) -> ProgCase {
        let faults = rng.chance(1, 2);
        if faults {
            ctx.count("subbatch.faulty");
        } else {
            ctx.count("subbatch.fault_free");
        }
        gen_case(rng, ctx, false, false, faults)
    }

    fn execute(c: &ProgCase, ctx: &mut Ctx) -> Option<Violation> {
        let cmp = Compare {
            prop: "C03",
            trace: false,
            warnings: false,
            reenter_probe: false,
        };
        match run_lockstep(c, cmp, ctx) {
            Ok(o) => {
                if let Some(h) = nontrivial_hash(c, &o) {
                    ctx.nontrivial(h);
                }
                reach_counts(&o, ctx);
                None
            }
            Err(v) => Some(v),
        }
    }

    fn view(c: &ProgCase) -> serde_json::Value {
        prog_view(c)
    }

    fn shrink(c: &ProgCase) -> Vec<ProgCase> {
        shrink_prog_case(c)
    }
}
