//! C08 — INPUT suspends and resumes without disturbing the rest of the program.
//! Lock-step model with structured replies; faults are what arrives while the
//! interpreter is blocked: wrong replies (REENTER, repeated), surplus, empty, and
//! a break while the request is pending.

use crate::engine::{Ctx, Meta, Prop, Tier, Violation};
use crate::lockstep::*;
use crate::prng::Rng;
use crate::props::c03::{gen_case, nontrivial_hash, reach_counts};

pub struct C08;

impl Prop for C08 {
    const ID: &'static str = "C08";
    type Case = ProgCase;

    fn meta() -> Meta {
        Meta {
            level: "exploration",
            rule: "Programs from the C03 grammar with INPUT v / v$ / cell targets spliced at every position the grammar offers (alone, after/before other statements, inside THEN, inside ELSE, inside THEN followed by ELSE, in FOR bodies and subroutines); structured reply scripts (numbers, decimals, negatives, bare words, quoted text with , and :, empty, blanks, surplus after , or :, replies of 260-320 characters, numerals spelled +5 / 1e2 / .5 / 007 / 5.) and cells that cannot be stored into (BAD SUBSCRIPT after a suitable reply) with non-numeric replies to numeric targets repeated; a share of requests is first interrupted by break + CONT; one session in four runs with tracing on, one in four with warnings on (trace and warning records are compared with the model's as in C17). Oracle: lock-step reference model per segment (output before the request, REENTER/EXTRA IGNORED records, continuation equals the assignment, stored scalars equal the model's at every segment end) plus probe equality across every REENTER. distinct_nontrivial = distinct (program, ticks, inputs answered, stops, error, breaks) hashes among runs that answered >= 1 request.",
            real: &["abasic-core Interpreter incl. DATA/reply parser (parse_data_until_colon), INPUT rewind path"],
            stub: &["the host (replies, breaks)", "reference model sim/src/model.rs with structured replies (no reply parser shared)"],
            assumptions: &[
                "string targets receive only non-numeric-looking text or canonical numerals (the 007 -> 7 coercion is exercised in canonical form only)",
                "reply items avoid the words inf / nan / infinity, which Rust's f64 parser accepts",
                "subscript expressions of INPUT targets are literals or scalar variables (no side effects)",
            ],
            reach: &[
                "fault.bad_reply(REENTER)",
                "fault.surplus_reply",
                "fault.empty_reply",
                "fault.break@awaiting+cont",
                "reach.reenter_probe_equal",
                "reach.input_answered",
            ],
        }
    }

    fn runs(tier: Tier) -> u64 {
        match tier {
            Tier::Quick => 400_000,
            Tier::Thorough => 15_000_000,
        }
    }

    fn generate(rng: &mut Rng, ctx: &mut Ctx) -> ProgCase {
        let faults = rng.chance(1, 2);
        let rnd_sub = rng.chance(1, 5);
        let mut c = loop {
            let stop = rng.chance(1, 4);
            let mut c = if rnd_sub {
                crate::props::c03::gen_case_with(rng, ctx, true, stop, false, true)
            } else {
                gen_case(rng, ctx, true, stop, false)
            };
            // make sure INPUT is present most of the time
            let has_input = c.lines.iter().any(|l| crate::ast::print_line_body(&l.stmts).contains("INPUT"));
            if has_input || rng.chance(1, 10) {
                // swarm: the request / REENTER / EXTRA IGNORED records are the same whether or not the host has
                // tracing or warnings switched on (one session in four each)
                c.tracing = rng.chance(1, 4);
                c.warnings = rng.chance(1, 4);
                break c;
            }
        };
        if rnd_sub {
            // the subscript is evaluated once per attempt, so a REENTER would draw again: numeric replies only
            ctx.count("subbatch.rnd_subscript");
            for r in c.replies.iter_mut() {
                if !matches!(r.first, crate::model::ReplyItem::Num(_)) {
                    *r = crate::gen::default_reply();
                }
            }
        }
        if faults {
            ctx.count("subbatch.faulty");
            let n = rng.usize(4);
            for _ in 0..n {
                c.await_breaks.push(rng.below(6) as u32);
            }
            let n = rng.usize(3);
            for _ in 0..n {
                c.breaks.push(rng.below(80) as u32);
            }
            if rng.chance(1, 3) {
                c.reply_breaks.push((rng.below(4) as u32, None));
            }
        } else {
            ctx.count("subbatch.fault_free");
        }
        c
    }

    fn execute(c: &ProgCase, ctx: &mut Ctx) -> Option<Violation> {
        let cmp = Compare {
            prop: "C08",
            trace: c.tracing,
            warnings: c.warnings,
            reenter_probe: true,
        };
        match run_lockstep(c, cmp, ctx) {
            Ok(mut o) => {
                // whenever INPUT is reached the interpreter must ask: also right after a run that
                // ended (normally or by failing while a reply was being stored)
                if !o.capped && o.sess.state() == crate::sess::St::Idle {
                    // (a fresh line holding an INPUT is added and jumped to: program context, no immediate INPUT)
                    let added = o.sess.apply(&crate::sess::Op::Line("99990 INPUT Q9".into()));
                    if added.as_ref().map(|c| c.err().is_some() || c.panicked().is_some()).unwrap_or(true) {
                        return Some(Violation::new("C08/harness", "probe line rejected", format!("{:?}", added.map(|c| c.res))));
                    }
                    let calls = o.sess.line_and_settle("GOTO 99990", 4);
                    if let Some(call) = calls.last().cloned() {
                        ctx.calls(1 + calls.len() as u64);
                        if let Some(p) = call.panicked() {
                            return Some(Violation::new("C08/panic", format!("panic@{p}"), format!("immediate INPUT after the run unwound: {p}")));
                        }
                        let recs: Vec<_> = call.recs.iter().filter(|r| !matches!(r, crate::sess::Rec::Trace(_))).collect();
                        if call.state != crate::sess::St::Awaiting || !recs.is_empty() {
                            return Some(Violation::new(
                                "C08/input-did-not-ask",
                                format!("state={:?} after the run ended with {:?}", call.state, o.error),
                                format!("an INPUT reached right after the run (which ended with {:?}) did not ask: state {:?}, records {:?}, error {:?}", o.error, call.state, call.recs, call.err()),
                            ));
                        }
                        ctx.count("reach.post_run_input_asks");
                    }
                }
                if o.inputs_answered > 0 {
                    ctx.count("reach.input_answered");
                    if let Some(h) = nontrivial_hash(c, &o) {
                        ctx.nontrivial(h);
                    }
                }
                reach_counts(&o, ctx);
                None
            }
            Err(v) => Some(v),
        }
    }

    fn view(c: &ProgCase) -> serde_json::Value {
        prog_view(c)
    }

    fn shrink(c: &ProgCase) -> Vec<ProgCase> {
        shrink_prog_case(c)
    }
}
