//! The host policy used by the twin (metamorphic) checks: run a program on a
//! session to completion under a schedule of breaks / inspections / replies and
//! return what a user would have observed.

use crate::engine::{Ctx, Violation};
use crate::sess::{Op, Rec, Res, Sess, St};
use serde::{Deserialize, Serialize};

#[derive(Clone, Debug, PartialEq, Serialize, Deserialize)]
pub enum Inspect {
    /// an immediate line that is always free of side effects
    Stmt(String),
    /// PRINT name(idx…) — only issued if the array exists with that arity (else it would create it)
    Cell(String, Vec<u64>),
    /// PRINT name(arg) — only issued if the function is defined (else it would create an array)
    Call(String, String),
    /// PRINT name(99…) for an existing array: fails with BAD SUBSCRIPT, changes nothing
    BadCell(String),
    /// DIM name(n…) for an existing array: always refused (REDIM'D ARRAY), changes nothing
    Redim(String, u64),
}

#[derive(Clone, Debug, PartialEq, Serialize, Deserialize)]
pub struct BreakPoint {
    /// boundary index (every moment the host decides: before a tick or a reply)
    pub at: u32,
    pub inspections: Vec<Inspect>,
}

#[derive(Clone, Debug, PartialEq)]
pub enum ObsRec {
    R(Rec),
    /// an input request was answered here
    Req,
}

#[derive(Clone, Debug)]
pub struct Obs {
    pub stream: Vec<ObsRec>,
    /// error kind + line that ended the run
    pub outcome: Option<(String, Option<u64>)>,
    pub capped: bool,
    pub boundaries: u32,
    pub final_probe: String,
    pub breaks_fired: u32,
    pub breaks_awaiting: u32,
    pub inspections: u32,
    pub inspections_failed: u32,
    pub stops: u32,
    pub requests: u32,
    pub max_stack_at_break: usize,
}

pub struct DriveCfg<'a> {
    pub replies: &'a [String],
    pub boundary_cap: u32,
    pub breaks: &'a [BreakPoint],
    /// immediate line issued at every STOP before CONT
    pub at_stop: Option<&'a str>,
    pub prop: &'static str,
}

fn inspect_text(i: &Inspect, s: &Sess) -> Option<String> {
    match i {
        Inspect::Stmt(t) => Some(t.clone()),
        Inspect::Cell(name, idx) => {
            let p = s.probe(false);
            let a = p.arrays.iter().find(|a| &a.name == name)?;
            if a.dimensions.len() != idx.len() {
                return None;
            }
            Some(format!("PRINT {}({})", name, idx.iter().map(|i| i.to_string()).collect::<Vec<_>>().join(",")))
        }
        Inspect::Call(name, arg) => {
            let p = s.probe(false);
            p.functions.iter().find(|f| &f.name == name && f.arguments.len() == 1)?;
            Some(format!("PRINT {}({})", name, arg))
        }
        Inspect::Redim(name, n) => {
            let p = s.probe(false);
            let a = p.arrays.iter().find(|a| &a.name == name)?;
            Some(format!("DIM {}({})", name, vec![n.to_string(); a.dimensions.len()].join(",")))
        }
        Inspect::BadCell(name) => {
            let p = s.probe(false);
            let a = p.arrays.iter().find(|a| &a.name == name)?;
            Some(format!("PRINT {}({})", name, vec!["99"; a.dimensions.len()].join(",")))
        }
    }
}

pub fn probe_text(s: &Sess) -> String {
    let mut p = s.probe(true);
    p.token_reads = 0;
    format!("{:?}", p)
}

/// Drive the session from `start` (normally `Line("RUN")`) until it is idle without a
/// STOP breakpoint, fails, or the boundary cap is reached.
pub fn drive_run(s: &mut Sess, start: Op, cfg: &DriveCfg, ctx: &mut Ctx) -> Result<Obs, Violation> {
    let prop = cfg.prop;
    let v = |class: &str, fp: String, detail: String| Violation::new(&format!("{prop}/{class}"), fp, detail);
    let mut obs = Obs {
        stream: vec![],
        outcome: None,
        capped: false,
        boundaries: 0,
        final_probe: String::new(),
        breaks_fired: 0,
        breaks_awaiting: 0,
        inspections: 0,
        inspections_failed: 0,
        stops: 0,
        requests: 0,
        max_stack_at_break: 0,
    };
    let mut replies = cfg.replies.iter();
    let mut next_break = 0usize;
    let mut pending = Some(start);
    loop {
        let op = match pending.take() {
            Some(op) => op,
            None => match s.state() {
                St::Idle | St::NewReq => break,
                st => {
                    if obs.boundaries >= cfg.boundary_cap {
                        obs.capped = true;
                        break;
                    }
                    let k = obs.boundaries;
                    obs.boundaries += 1;
                    let mut fire = None;
                    while next_break < cfg.breaks.len() && cfg.breaks[next_break].at <= k {
                        if cfg.breaks[next_break].at == k {
                            fire = Some(&cfg.breaks[next_break]);
                        }
                        next_break += 1;
                    }
                    if let Some(bp) = fire {
                        // ---- the fault: break in, look around, continue
                        let b = s.apply(&Op::Break).unwrap();
                        ctx.calls(1);
                        if let Some(p) = b.panicked() {
                            return Err(v("panic", format!("panic@{p}"), format!("Break unwound: {p}")));
                        }
                        if b.state != St::Idle {
                            return Err(v("break-not-idle", format!("{:?}", b.state), "Break did not return the interpreter to idle".into()));
                        }
                        obs.breaks_fired += 1;
                        if st == St::Awaiting {
                            obs.breaks_awaiting += 1;
                            ctx.count("fault.break@awaiting");
                        } else {
                            ctx.count("fault.break@running");
                        }
                        let pr = s.probe(false);
                        obs.max_stack_at_break = obs.max_stack_at_break.max(pr.stack.len());
                        if pr.stack.len() >= 2 {
                            ctx.count("reach.break_inside_gosub_depth>=2");
                        }
                        if !pr.loops.is_empty() {
                            ctx.count("reach.break_inside_for");
                        }
                        for i in &bp.inspections {
                            let Some(text) = inspect_text(i, s) else { continue };
                            let mut c = s.apply(&Op::Line(text.clone())).unwrap();
                            ctx.calls(1);
                            // an immediate line of several statements takes one call per statement
                            let mut extra = 0;
                            while c.state == St::Running && matches!(c.res, Res::Ok) && extra < 20 {
                                c = s.apply(&Op::Tick).unwrap();
                                ctx.calls(1);
                                extra += 1;
                            }
                            if extra > 0 {
                                ctx.count("fault.inspect_at_break(several statements)");
                            }
                            obs.inspections += 1;
                            match &c.res {
                                Res::Panic(p) => {
                                    return Err(v("panic", format!("panic@{p}"), format!("inspection `{text}` unwound: {p}")));
                                }
                                Res::Err(_) => {
                                    obs.inspections_failed += 1;
                                    ctx.count("fault.inspect_at_break(failing)");
                                }
                                Res::Ok => ctx.count("fault.inspect_at_break(ok)"),
                            }
                            if c.state != St::Idle {
                                return Err(v(
                                    "inspection-not-idle",
                                    format!("{:?}", c.state),
                                    format!("inspection `{text}` left the interpreter in {:?}", c.state),
                                ));
                            }
                        }
                        ctx.count("fault.cont");
                        Op::Line("CONT".into())
                    } else if st == St::Awaiting {
                        obs.stream.push(ObsRec::Req);
                        obs.requests += 1;
                        Op::Reply(replies.next().cloned().unwrap_or_else(|| "0".to_string()))
                    } else {
                        Op::Tick
                    }
                }
            },
        };
        let Some(call) = s.apply(&op) else {
            return Err(v("harness", "illegal op".into(), format!("{:?} in {:?}", op, s.state())));
        };
        ctx.calls(1);
        let is_host_break = false;
        let _ = is_host_break;
        for r in &call.recs {
            obs.stream.push(ObsRec::R(r.clone()));
        }
        match &call.res {
            Res::Ok => {}
            Res::Err(e) => {
                obs.outcome = Some((e.kind.clone(), e.line));
                break;
            }
            Res::Panic(p) => return Err(v("panic", format!("panic@{p}"), format!("{:?} unwound: {p}", op))),
        }
        // STOP: the program asked for a break; answer with CONT at once
        if s.state() == St::Idle && s.probe(false).breakpoint.is_some() && matches!(call.recs.last(), Some(Rec::Break(_))) {
            obs.stops += 1;
            if obs.stops > 300 {
                obs.capped = true;
                break;
            }
            if let Some(line) = cfg.at_stop {
                let c = s.apply(&Op::Line(line.to_string())).unwrap();
                ctx.calls(1);
                if let Some(p) = c.panicked() {
                    return Err(v("panic", format!("panic@{p}"), format!("`{line}` at STOP unwound: {p}")));
                }
                if c.err().is_some() || c.state != St::Idle {
                    return Err(v("harness", "assignment at STOP failed".into(), format!("{:?}", c.res)));
                }
                ctx.count("fault.assign_at_stop");
            }
            pending = Some(Op::Line("CONT".into()));
        }
    }
    obs.final_probe = probe_text(s);
    Ok(obs)
}

/// Compare two observations record for record. `drop_breaks`: BREAK notices are not part of the comparison.
pub fn compare_obs(prop: &str, a_name: &str, a: &Obs, b_name: &str, b: &Obs, drop_host_breaks: bool, compare_state: bool) -> Option<Violation> {
    let filt = |o: &Obs| -> Vec<ObsRec> {
        o.stream
            .iter()
            .filter(|r| !(drop_host_breaks && matches!(r, ObsRec::R(Rec::Break(_)))))
            .cloned()
            .collect()
    };
    let sa = filt(a);
    let sb = filt(b);
    let n = if a.capped || b.capped { sa.len().min(sb.len()) } else { sa.len().max(sb.len()) };
    for i in 0..n {
        if sa.get(i) != sb.get(i) {
            return Some(Violation::new(
                &format!("{prop}/continuation-differs"),
                format!(
                    "{}={} {}={}",
                    a_name,
                    sa.get(i).map(kind).unwrap_or("none"),
                    b_name,
                    sb.get(i).map(kind).unwrap_or("none")
                ),
                format!("record {i}: {a_name} {:?} vs {b_name} {:?}", sa.get(i), sb.get(i)),
            ));
        }
    }
    if a.capped || b.capped {
        return None;
    }
    if a.outcome != b.outcome {
        return Some(Violation::new(
            &format!("{prop}/outcome-differs"),
            format!("{}={:?} {}={:?}", a_name, a.outcome.as_ref().map(|o| &o.0), b_name, b.outcome.as_ref().map(|o| &o.0)),
            format!("final outcome: {a_name} {:?} vs {b_name} {:?}", a.outcome, b.outcome),
        ));
    }
    if compare_state && a.final_probe != b.final_probe {
        return Some(Violation::new(
            &format!("{prop}/final-state-differs"),
            "probe".to_string(),
            format!("final state: {a_name}\n{}\n{b_name}\n{}", a.final_probe, b.final_probe),
        ));
    }
    None
}

fn kind(r: &ObsRec) -> &'static str {
    match r {
        ObsRec::R(r) => r.kind(),
        ObsRec::Req => "Request",
    }
}
