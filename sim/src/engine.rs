//! Worker pool, supervisor, minimiser, replay files, known findings, evidence.

use crate::prng::{run_seed, Rng};
use serde::de::DeserializeOwned;
use serde::{Deserialize, Serialize};
use serde_json::{json, Value};
use std::collections::{BTreeMap, HashSet};
use std::io::{Read, Write};
use std::path::{Path, PathBuf};
use std::process::{Command, Stdio};
use std::time::Instant;

pub const DEFAULT_SEED: u64 = 20260927;

static PROGRESS: std::sync::atomic::AtomicU64 = std::sync::atomic::AtomicU64::new(0);
pub fn progress() -> u64 {
    PROGRESS.load(std::sync::atomic::Ordering::Relaxed)
}
pub fn tick_progress() {
    PROGRESS.fetch_add(1, std::sync::atomic::Ordering::Relaxed);
}

#[derive(Clone, Copy, Debug, PartialEq, Eq)]
pub enum Tier {
    Quick,
    Thorough,
}

impl Tier {
    pub fn name(self) -> &'static str {
        match self {
            Tier::Quick => "quick",
            Tier::Thorough => "thorough",
        }
    }
    pub fn parse(s: &str) -> Option<Tier> {
        match s {
            "quick" => Some(Tier::Quick),
            "thorough" => Some(Tier::Thorough),
            _ => None,
        }
    }
}

#[derive(Clone, Debug, PartialEq, Serialize, Deserialize)]
pub struct Violation {
    /// oracle id, e.g. `C01/panic`
    pub class: String,
    /// what identifies *this* defect (panic location, divergence shape ...)
    pub fingerprint: String,
    /// human readable detail (not used for matching)
    pub detail: String,
}

impl Violation {
    pub fn new(class: &str, fingerprint: impl Into<String>, detail: impl Into<String>) -> Violation {
        Violation {
            class: class.to_string(),
            fingerprint: fingerprint.into(),
            detail: detail.into(),
        }
    }
    pub fn same_as(&self, other: &Violation) -> bool {
        self.class == other.class && self.fingerprint == other.fingerprint
    }
}

#[derive(Default)]
pub struct Stats {
    pub runs: u64,
    pub host_calls: u64,
    pub sim_ms: u64,
    pub counters: BTreeMap<String, u64>,
    pub hashes: HashSet<u64>,
    pub states: HashSet<u64>,
    pub samples: Vec<Value>,
}

pub struct Ctx {
    pub tier: Tier,
    pub run: u64,
    pub stats: Stats,
    inflight: Option<PathBuf>,
    pub announce_all: bool,
    prop: &'static str,
}

impl Ctx {
    pub fn new(prop: &'static str, tier: Tier) -> Ctx {
        Ctx {
            tier,
            run: 0,
            stats: Stats::default(),
            inflight: None,
            announce_all: false,
            prop,
        }
    }
    pub fn count(&mut self, key: &str) {
        *self.stats.counters.entry(key.to_string()).or_insert(0) += 1;
    }
    pub fn count_n(&mut self, key: &str, n: u64) {
        *self.stats.counters.entry(key.to_string()).or_insert(0) += n;
    }
    pub fn calls(&mut self, n: u64) {
        self.stats.host_calls += n;
        tick_progress();
    }
    /// register a distinct non-trivial case (by the property's rule)
    pub fn nontrivial(&mut self, hash: u64) {
        self.stats.hashes.insert(hash);
    }
    pub fn state(&mut self, hash: u64) {
        if self.stats.states.len() < 2_000_000 {
            self.stats.states.insert(hash);
        }
    }
    pub fn sample(&mut self, v: Value) {
        if self.stats.samples.len() < 3 {
            self.stats.samples.push(v);
        }
    }
    pub fn wants_sample(&self) -> bool {
        self.stats.samples.len() < 3
    }
    /// Persist the case about to be executed, so that an abort of this process
    /// (native stack overflow, SIGSEGV) can be attributed to it by the supervisor.
    pub fn announce<C: Serialize>(&mut self, case: &C) {
        if let Some(p) = &self.inflight {
            let v = json!({"run": self.run, "property": self.prop, "case": case});
            let _ = std::fs::write(p, serde_json::to_vec(&v).unwrap());
        }
    }
    pub fn clear_announce(&mut self) {
        if let Some(p) = &self.inflight {
            let _ = std::fs::remove_file(p);
        }
    }
    pub fn has_inflight(&self) -> bool {
        self.inflight.is_some()
    }
}

pub struct Meta {
    pub level: &'static str,
    pub rule: &'static str,
    pub real: &'static [&'static str],
    pub stub: &'static [&'static str],
    pub assumptions: &'static [&'static str],
    /// counters that must be non-zero for the workload to count as reaching
    pub reach: &'static [&'static str],
}

pub trait Prop {
    const ID: &'static str;
    type Case: Serialize + DeserializeOwned + Clone;

    fn meta() -> Meta;
    fn runs(tier: Tier) -> u64;
    fn generate(rng: &mut Rng, ctx: &mut Ctx) -> Self::Case;
    fn dangerous(_case: &Self::Case) -> bool {
        false
    }
    fn execute(case: &Self::Case, ctx: &mut Ctx) -> Option<Violation>;
    fn shrink(case: &Self::Case) -> Vec<Self::Case>;

    /// Default: generate then execute. Properties whose generation depends on
    /// the live state override this and interleave.
    fn run_fresh(rng: &mut Rng, ctx: &mut Ctx) -> (Self::Case, Option<Violation>) {
        let case = Self::generate(rng, ctx);
        if ctx.announce_all || Self::dangerous(&case) {
            ctx.announce(&case);
        }
        let v = Self::execute(&case, ctx);
        (case, v)
    }
    /// How a case is shown in the evidence file's `samples` (default: its JSON).
    fn view(case: &Self::Case) -> Value {
        serde_json::to_value(case).unwrap()
    }
    /// Extra deterministic cases executed before the random ones (index-addressed).
    fn fixed_cases() -> Vec<Self::Case> {
        vec![]
    }
}

fn prop_salt(id: &str) -> u64 {
    crate::prng::fnv(id.as_bytes())
}

pub fn stack_bytes() -> usize {
    std::env::var("VERIF_STACK_MIB")
        .ok()
        .and_then(|s| s.parse::<usize>().ok())
        .unwrap_or(8)
        * 1024
        * 1024
}

/// Run `f` on a thread with the configured stack size (Linux main-thread default 8 MiB).
pub fn on_big_stack<T: Send + 'static>(f: impl FnOnce() -> T + Send + 'static) -> T {
    std::thread::Builder::new()
        .stack_size(stack_bytes())
        .spawn(f)
        .expect("spawn")
        .join()
        .expect("worker thread panicked (harness bug)")
}

// ------------------------------------------------------------------ worker

pub struct WorkerArgs {
    pub tier: Tier,
    pub seed: u64,
    pub shard: u64,
    pub shards: u64,
    pub runs: u64,
    pub budget_s: Option<f64>,
    pub dir: PathBuf,
    pub announce_all: bool,
    pub max_violations: usize,
    pub start: u64,
    pub incarnation: u64,
}

pub fn worker<P: Prop>(a: WorkerArgs) -> i32 {
    crate::sess::install_panic_hook();
    let out = std::io::stdout();
    let start = Instant::now();
    let mut ctx = Ctx::new(P::ID, a.tier);
    ctx.inflight = Some(a.dir.join(format!("inflight-{}.json", a.shard)));
    ctx.announce_all = a.announce_all;
    let fixed = P::fixed_cases();
    let nfixed = fixed.len() as u64;
    let mut nviol = 0usize;
    let total = a.runs + nfixed;
    let mut i = a.start;
    let mut since_flush = 0u64;
    while i < total {
        if let Some(b) = a.budget_s {
            if start.elapsed().as_secs_f64() > b {
                ctx.count("budget_cutoff");
                break;
            }
        }
        ctx.run = i;
        tick_progress();
        let (case, v) = if i < nfixed {
            let case = fixed[i as usize].clone();
            ctx.announce(&case);
            let v = P::execute(&case, &mut ctx);
            (case, v)
        } else {
            let rs = run_seed(a.seed, prop_salt(P::ID), i - nfixed);
            let mut rng = Rng::new(rs);
            P::run_fresh(&mut rng, &mut ctx)
        };
        ctx.clear_announce();
        ctx.stats.runs += 1;
        if let Some(v) = v {
            nviol += 1;
            let line = json!({"t":"v","run":i,"case":case,"violation":v});
            let mut o = out.lock();
            let _ = writeln!(o, "{}", line);
            if nviol >= a.max_violations {
                break;
            }
        } else if ctx.wants_sample() && i % 97 == a.shard % 97 {
            let v = P::view(&case);
            ctx.sample(truncate_json(v, 2500));
        }
        i += a.shards;
        since_flush += 1;
        if since_flush >= 1000 {
            since_flush = 0;
            flush_worker(&a, &ctx, start, false);
        }
    }
    flush_worker(&a, &ctx, start, true);
    0
}

fn flush_worker(a: &WorkerArgs, ctx: &Ctx, start: Instant, done: bool) {
    let write_hashes = |name: &str, set: &HashSet<u64>| {
        let p = a.dir.join(format!("{}-{}-{}.bin", name, a.shard, a.incarnation));
        let mut buf = Vec::with_capacity(set.len() * 8);
        for h in set {
            buf.extend_from_slice(&h.to_le_bytes());
        }
        let _ = std::fs::write(p, buf);
    };
    write_hashes("hashes", &ctx.stats.hashes);
    write_hashes("states", &ctx.stats.states);
    let line = json!({"t":"s","runs":ctx.stats.runs,"host_calls":ctx.stats.host_calls,
        "sim_ms": ctx.stats.sim_ms, "done": done,
        "counters":ctx.stats.counters,"samples":ctx.stats.samples,
        "wall_s": start.elapsed().as_secs_f64()});
    let out = std::io::stdout();
    let mut o = out.lock();
    let _ = writeln!(o, "{}", line);
}

pub fn truncate_json(v: Value, max: usize) -> Value {
    let s = v.to_string();
    if s.len() <= max {
        v
    } else {
        let mut cut = max;
        while !s.is_char_boundary(cut) {
            cut -= 1;
        }
        json!({"truncated_json": format!("{}…", &s[..cut]), "full_len": s.len()})
    }
}

// ------------------------------------------------------------------ exec one case (child process)

/// Execute one case from a file; prints the violation as JSON (or `null`).
pub fn exec_case<P: Prop>(path: &Path) -> i32 {
    crate::sess::install_panic_hook();
    let txt = std::fs::read_to_string(path).expect("read case file");
    let v: Value = serde_json::from_str(&txt).expect("case json");
    let case_v = v.get("case").cloned().unwrap_or(v);
    let case: P::Case = serde_json::from_value(case_v).expect("case shape");
    let mut ctx = Ctx::new(P::ID, Tier::Quick);
    let viol = P::execute(&case, &mut ctx);
    println!("{}", serde_json::to_string(&viol).unwrap());
    if viol.is_some() {
        1
    } else {
        0
    }
}

fn self_exe() -> PathBuf {
    std::env::current_exe().expect("current_exe")
}

/// Execute a case in a child process, mapping death-by-signal to an abort violation.
fn exec_isolated(prop: &str, dir: &Path, case: &Value, tag: &str) -> Result<Option<Violation>, String> {
    let p = dir.join(format!("exec-{}.json", tag));
    std::fs::write(&p, serde_json::to_vec(&json!({"case": case})).unwrap()).map_err(|e| e.to_string())?;
    let out = Command::new(self_exe())
        .args(["exec", prop, p.to_str().unwrap()])
        .stdin(Stdio::null())
        .stderr(Stdio::piped())
        .output()
        .map_err(|e| e.to_string())?;
    let _ = std::fs::remove_file(&p);
    use std::os::unix::process::ExitStatusExt;
    if let Some(sig) = out.status.signal() {
        let err = String::from_utf8_lossy(&out.stderr);
        return Ok(Some(abort_violation(prop, sig, &err)));
    }
    let s = String::from_utf8_lossy(&out.stdout);
    let last = s.lines().last().unwrap_or("null");
    serde_json::from_str::<Option<Violation>>(last).map_err(|e| format!("exec output: {e}: {s}"))
}

fn abort_violation(prop: &str, sig: i32, stderr: &str) -> Violation {
    let what = if stderr.contains("stack overflow") {
        "native stack overflow".to_string()
    } else if stderr.contains("WATCHDOG") {
        "wedge (a host call did not return within 45 s)".to_string()
    } else if stderr.contains("memory allocation") {
        "allocation failure (abort)".to_string()
    } else {
        format!("signal {sig}")
    };
    Violation::new(
        &format!("{prop}/abort"),
        what.clone(),
        format!("process died: {what} (signal {sig})"),
    )
}

// ------------------------------------------------------------------ minimiser

pub fn minimise<P: Prop>(
    case: P::Case,
    target: &Violation,
    dir: &Path,
    isolated: bool,
    budget_s: f64,
) -> (P::Case, u64) {
    let start = Instant::now();
    let mut cur = case;
    let mut execs = 0u64;
    let mut ctx = Ctx::new(P::ID, Tier::Quick);
    loop {
        let mut progressed = false;
        for cand in P::shrink(&cur) {
            if start.elapsed().as_secs_f64() > budget_s || execs > 20_000 {
                return (cur, execs);
            }
            execs += 1;
            let v = if isolated {
                let cv = serde_json::to_value(&cand).unwrap();
                exec_isolated(P::ID, dir, &cv, "min").ok().flatten()
            } else {
                P::execute(&cand, &mut ctx)
            };
            if let Some(v) = v {
                if v.same_as(target) {
                    cur = cand;
                    progressed = true;
                    break;
                }
            }
        }
        if !progressed {
            return (cur, execs);
        }
    }
}

/// Run the greedy minimiser in a child process (`abasic-sim minimise`), so that a candidate that
/// aborts the process (stack overflow, failed allocation) cannot take the supervisor down. If the
/// child dies, fall back to executing every candidate in its own process; if that fails, keep the case.
pub fn minimise_in_child<P: Prop>(case: &P::Case, target: &Violation, dir: &Path, isolated: bool, budget_s: f64) -> (P::Case, u64) {
    if isolated {
        return minimise::<P>(case.clone(), target, dir, true, budget_s);
    }
    let inp = dir.join("min-in.json");
    let outp = dir.join("min-out.json");
    let _ = std::fs::remove_file(&outp);
    let doc = json!({"case": case, "violation": target, "budget_s": budget_s});
    if std::fs::write(&inp, serde_json::to_vec(&doc).unwrap()).is_ok() {
        let st = Command::new(self_exe())
            .args(["minimise", P::ID, inp.to_str().unwrap(), outp.to_str().unwrap()])
            .stdin(Stdio::null())
            .stdout(Stdio::null())
            .stderr(Stdio::null())
            .status();
        if let Ok(st) = st {
            if st.success() {
                if let Ok(txt) = std::fs::read_to_string(&outp) {
                    if let Ok(v) = serde_json::from_str::<Value>(&txt) {
                        if let Ok(c) = serde_json::from_value::<P::Case>(v["case"].clone()) {
                            return (c, v["execs"].as_u64().unwrap_or(0));
                        }
                    }
                }
            }
        }
    }
    // the in-process minimiser died: one process per candidate, smaller budget
    minimise::<P>(case.clone(), target, dir, true, budget_s.min(30.0))
}

/// entry point of the `minimise` child process
pub fn minimise_main<P: Prop>(inp: &Path, outp: &Path) -> i32 {
    crate::sess::install_panic_hook();
    let Ok(txt) = std::fs::read_to_string(inp) else { return 2 };
    let Ok(doc) = serde_json::from_str::<Value>(&txt) else { return 2 };
    let Ok(case) = serde_json::from_value::<P::Case>(doc["case"].clone()) else { return 2 };
    let Ok(target) = serde_json::from_value::<Violation>(doc["violation"].clone()) else { return 2 };
    let budget = doc["budget_s"].as_f64().unwrap_or(30.0);
    let dir = inp.parent().unwrap_or(Path::new("/tmp")).to_path_buf();
    let (small, execs) = minimise::<P>(case, &target, &dir, false, budget);
    let out = json!({"case": small, "execs": execs});
    if std::fs::write(outp, serde_json::to_vec(&out).unwrap()).is_err() {
        return 2;
    }
    0
}

/// ddmin-style candidates for a vector: drop halves, quarters, ..., single elements.
pub fn shrink_vec<T: Clone>(v: &[T]) -> Vec<Vec<T>> {
    let mut out = vec![];
    let n = v.len();
    if n == 0 {
        return out;
    }
    let mut chunk = n;
    let mut seen = 0;
    while chunk >= 1 {
        let mut start = 0;
        while start < n {
            let end = (start + chunk).min(n);
            if !(start == 0 && end == n && n == 1 && seen > 0) {
                let mut c = Vec::with_capacity(n - (end - start));
                c.extend_from_slice(&v[..start]);
                c.extend_from_slice(&v[end..]);
                out.push(c);
            }
            start = end;
            seen += 1;
        }
        if chunk == 1 {
            break;
        }
        chunk = (chunk + 1) / 2;
        if out.len() > 400 {
            // keep candidate lists bounded: single-element removals only beyond this
            chunk = 1;
        }
    }
    out
}

// ------------------------------------------------------------------ known findings

#[derive(Clone, Debug, Deserialize)]
pub struct Finding {
    pub property: String,
    pub class: String,
    pub fingerprint: String,
    pub what: String,
    pub status: String,
    #[serde(default)]
    pub commit: Option<String>,
    /// the specific failing input: a case of this property, executed on every run of the check
    #[serde(default)]
    pub case: Option<Value>,
}

pub fn verif_root() -> PathBuf {
    if let Ok(r) = std::env::var("VERIF_ROOT") {
        return PathBuf::from(r);
    }
    PathBuf::from("/verif")
}

pub fn load_findings() -> Vec<Finding> {
    let p = verif_root().join("known_findings.json");
    let Ok(txt) = std::fs::read_to_string(&p) else {
        return vec![];
    };
    let v: Value = serde_json::from_str(&txt).expect("known_findings.json is not JSON");
    serde_json::from_value(v.get("findings").cloned().unwrap_or(json!([]))).expect("known_findings.json shape")
}

fn known<'a>(findings: &'a [Finding], prop: &str, v: &Violation) -> Option<&'a Finding> {
    findings.iter().find(|f| {
        f.status == "known" && f.property == prop && f.class == v.class && v.fingerprint.contains(&f.fingerprint)
    })
}

// ------------------------------------------------------------------ supervisor

pub struct CheckArgs {
    pub tier: Tier,
    pub seed: u64,
    pub workers: u64,
    pub budget_s: Option<f64>,
    pub runs_override: Option<u64>,
}

struct WorkerResult {
    stdout: String,
    stderr: String,
    signal: Option<i32>,
    code: Option<i32>,
}

fn spawn_one(prop: &str, a: &CheckArgs, runs: u64, dir: &Path, announce_all: bool, shard: u64, start: u64, incarnation: u64) -> WorkerResult {
    let mut cmd = Command::new(self_exe());
    cmd.args([
        "worker",
        prop,
        a.tier.name(),
        &a.seed.to_string(),
        &shard.to_string(),
        &a.workers.to_string(),
        &runs.to_string(),
        dir.to_str().unwrap(),
        &start.to_string(),
        &incarnation.to_string(),
    ]);
    if let Some(b) = a.budget_s {
        cmd.env("VERIF_WORKER_BUDGET_S", format!("{b}"));
    }
    if announce_all {
        cmd.env("VERIF_ANNOUNCE_ALL", "1");
    } else {
        cmd.env_remove("VERIF_ANNOUNCE_ALL");
    }
    cmd.env("RUST_BACKTRACE", "0");
    cmd.stdin(Stdio::null()).stdout(Stdio::piped()).stderr(Stdio::piped());
    let mut child = cmd.spawn().expect("spawn worker");
    let mut so = child.stdout.take().unwrap();
    let mut se = child.stderr.take().unwrap();
    let t1 = std::thread::spawn(move || {
        let mut s = String::new();
        let _ = so.read_to_string(&mut s);
        s
    });
    let t2 = std::thread::spawn(move || {
        let mut s = Vec::new();
        let _ = se.read_to_end(&mut s);
        let s = String::from_utf8_lossy(&s).to_string();
        if s.len() > 20000 {
            let mut cut = s.len() - 20000;
            while !s.is_char_boundary(cut) {
                cut += 1;
            }
            s[cut..].to_string()
        } else {
            s
        }
    });
    let status = child.wait().expect("wait");
    use std::os::unix::process::ExitStatusExt;
    WorkerResult {
        stdout: t1.join().unwrap(),
        stderr: t2.join().unwrap(),
        signal: status.signal(),
        code: status.code(),
    }
}

/// What one shard produced over all its incarnations.
struct ShardOutcome {
    outputs: Vec<String>,
    /// (run, case json, violation) for aborted processes
    aborts: Vec<(u64, Value, Violation)>,
    errors: Vec<String>,
}

/// Run one shard to completion, restarting after each process death right after the case that killed it.
fn run_shard(prop: &'static str, a: &CheckArgs, runs: u64, dir: &Path, shard: u64) -> ShardOutcome {
    let mut out = ShardOutcome { outputs: vec![], aborts: vec![], errors: vec![] };
    let mut start = shard;
    let mut incarnation = 0u64;
    let mut announce_all = false;
    let deadline = a.budget_s.map(|b| Instant::now() + std::time::Duration::from_secs_f64(b));
    loop {
        let r = spawn_one(prop, a, runs, dir, announce_all, shard, start, incarnation);
        incarnation += 1;
        let died = r.signal.is_some();
        out.outputs.push(r.stdout.clone());
        if !died {
            if r.code != Some(0) {
                out.errors.push(format!("worker {shard} exited with code {:?}; stderr tail: {}", r.code, tail(&r.stderr, 600)));
            }
            return out;
        }
        let sig = r.signal.unwrap();
        let inflight = dir.join(format!("inflight-{}.json", shard));
        let mut attributed = None;
        if let Ok(txt) = std::fs::read_to_string(&inflight) {
            if let Ok(v) = serde_json::from_str::<Value>(&txt) {
                if let Some(run) = v["run"].as_u64() {
                    attributed = Some((run, v["case"].clone()));
                }
            }
            let _ = std::fs::remove_file(&inflight);
        }
        match attributed {
            Some((run, case)) => {
                out.aborts.push((run, case, abort_violation(prop, sig, &r.stderr)));
                start = run + a.workers;
                announce_all = false;
            }
            None => {
                if announce_all {
                    out.errors.push(format!("worker {shard} died (signal {sig}) and the case could not be attributed; stderr tail: {}", tail(&r.stderr, 600)));
                    return out;
                }
                // find where it got to from its last stats line, then repeat announcing everything
                announce_all = true;
            }
        }
        if incarnation > 12 || out.aborts.len() >= 4 {
            // enough evidence from this shard; the deaths themselves are reported as violations
            return out;
        }
        if let Some(d) = deadline {
            if Instant::now() > d {
                return out;
            }
        }
    }
}

fn tail(s: &str, n: usize) -> String {
    let c: Vec<char> = s.chars().collect();
    c[c.len().saturating_sub(n)..].iter().collect()
}

fn read_hashes(dir: &Path, name: &str, into: &mut HashSet<u64>) {
    if let Ok(rd) = std::fs::read_dir(dir) {
        for e in rd.flatten() {
            let f = e.file_name().to_string_lossy().to_string();
            if f.starts_with(&format!("{name}-")) && f.ends_with(".bin") {
                if let Ok(b) = std::fs::read(e.path()) {
                    for c in b.chunks_exact(8) {
                        into.insert(u64::from_le_bytes(c.try_into().unwrap()));
                    }
                }
            }
        }
    }
}

pub fn check<P: Prop>(a: CheckArgs) -> i32 {
    let start = Instant::now();
    let meta = P::meta();
    let runs = a.runs_override.unwrap_or_else(|| P::runs(a.tier));
    let dir = std::env::temp_dir().join(format!("abasic-sim-{}-{}", P::ID, std::process::id()));
    let _ = std::fs::remove_dir_all(&dir);
    std::fs::create_dir_all(&dir).expect("scratch dir");
    let code = check_inner::<P>(&a, &meta, runs, &dir, start);
    let _ = std::fs::remove_dir_all(&dir);
    code
}

struct Found<C> {
    run: u64,
    case: C,
    violation: Violation,
    isolated: bool,
}

fn check_inner<P: Prop>(a: &CheckArgs, meta: &Meta, runs: u64, dir: &Path, start: Instant) -> i32 {
    crate::sess::install_panic_hook();
    println!(
        "check {} tier={} seed={} runs={} workers={} stack_mib={}",
        P::ID,
        a.tier.name(),
        a.seed,
        runs,
        a.workers,
        stack_bytes() / 1024 / 1024
    );
    let findings = load_findings();
    let mut found: Vec<Found<P::Case>> = vec![];
    let mut harness_errors: Vec<String> = vec![];
    let outcomes: Vec<ShardOutcome> = std::thread::scope(|sc| {
        let hs: Vec<_> = (0..a.workers)
            .map(|k| sc.spawn(move || run_shard(P::ID, a, runs, dir, k)))
            .collect();
        hs.into_iter().map(|h| h.join().expect("shard thread")).collect()
    });
    let mut results: Vec<String> = vec![];
    for o in outcomes {
        for (run, case_v, violation) in o.aborts {
            match serde_json::from_value::<P::Case>(case_v) {
                Ok(case) => found.push(Found { run, case, violation, isolated: true }),
                Err(e) => harness_errors.push(format!("inflight case does not parse: {e}")),
            }
        }
        harness_errors.extend(o.errors);
        results.extend(o.outputs);
    }

    // merge
    let mut total_runs = 0u64;
    let mut host_calls = 0u64;
    let mut sim_ms = 0u64;
    let mut counters: BTreeMap<String, u64> = BTreeMap::new();
    let mut samples: Vec<Value> = vec![];
    for r in results.iter() {
        // stats lines are cumulative per process: keep the last one of each incarnation
        let last_s = r.lines().filter(|l| l.starts_with("{\"t\":\"s\"") || l.contains("\"t\":\"s\"")).last();
        for line in r.lines() {
            if line.contains("\"t\":\"s\"") && Some(line) != last_s {
                continue;
            }
            let Ok(v) = serde_json::from_str::<Value>(line) else {
                continue;
            };
            match v["t"].as_str() {
                Some("v") => {
                    let case: P::Case = match serde_json::from_value(v["case"].clone()) {
                        Ok(c) => c,
                        Err(e) => {
                            harness_errors.push(format!("bad case json: {e}"));
                            continue;
                        }
                    };
                    let violation: Violation = serde_json::from_value(v["violation"].clone()).unwrap();
                    found.push(Found {
                        run: v["run"].as_u64().unwrap_or(0),
                        case,
                        violation,
                        isolated: false,
                    });
                }
                Some("s") => {
                    total_runs += v["runs"].as_u64().unwrap_or(0);
                    host_calls += v["host_calls"].as_u64().unwrap_or(0);
                    sim_ms += v["sim_ms"].as_u64().unwrap_or(0);
                    if let Some(m) = v["counters"].as_object() {
                        for (k, n) in m {
                            let n = n.as_u64().unwrap_or(0);
                            let e = counters.entry(k.clone()).or_insert(0);
                            if k.starts_with("max.") {
                                *e = (*e).max(n);
                            } else {
                                *e += n;
                            }
                        }
                    }
                    if let Some(s) = v["samples"].as_array() {
                        for x in s {
                            if samples.len() < 4 {
                                samples.push(x.clone());
                            }
                        }
                    }
                }
                _ => {}
            }
        }
    }
    let mut hashes = HashSet::new();
    read_hashes(dir, "hashes", &mut hashes);
    let mut states = HashSet::new();
    read_hashes(dir, "states", &mut states);

    // classify violations
    found.sort_by_key(|f| f.run);
    let mut known_seen: BTreeMap<String, u64> = BTreeMap::new();
    // pinned inputs of known findings: executed on every run; still failing => KNOWN-FINDING
    for f in findings.iter().filter(|f| f.property == P::ID && f.status == "known") {
        if let Some(cv) = &f.case {
            match exec_isolated(P::ID, dir, cv, "known") {
                Ok(Some(v)) if v.class == f.class && v.fingerprint.contains(&f.fingerprint) => {
                    *known_seen.entry(f.what.clone()).or_insert(0) += 1;
                }
                Ok(Some(v)) => {
                    harness_errors.push(format!("known finding '{}' now fails differently: {} [{}]", f.what, v.class, v.fingerprint));
                }
                Ok(None) => {
                    println!("note: known finding no longer reproduces on this tree: {}", f.what);
                }
                Err(e) => harness_errors.push(format!("known finding case could not be executed: {e}")),
            }
        }
    }
    let mut fresh: Vec<Found<P::Case>> = vec![];
    let mut fresh_keys: HashSet<(String, String)> = HashSet::new();
    let mut fresh_total = 0u64;
    for f in found {
        if let Some(k) = known(&findings, P::ID, &f.violation) {
            *known_seen.entry(k.what.clone()).or_insert(0) += 1;
        } else {
            fresh_total += 1;
            let key = (f.violation.class.clone(), f.violation.fingerprint.clone());
            if fresh_keys.insert(key) && fresh.len() < 6 {
                fresh.push(f);
            }
        }
    }
    for (what, n) in &known_seen {
        println!("KNOWN-FINDING: property={} {} (seen in {} runs)", P::ID, what, n);
    }

    // minimise + replay files
    let mut replay_paths = vec![];
    let nfresh = fresh.len();
    for f in fresh {
        let per = (90.0 / nfresh as f64).max(10.0);
        let orig_size = serde_json::to_string(&f.case).map(|s| s.len()).unwrap_or(0);
        let (small, execs) = minimise_in_child::<P>(&f.case, &f.violation, dir, f.isolated, per);
        // re-derive the violation detail from the minimised case
        let small_v = serde_json::to_value(&small).unwrap();
        // (always in a child process: a case that aborts must not take the supervisor down)
        let v2 = exec_isolated(P::ID, dir, &small_v, "fin").ok().flatten();
        let (case_v, viol) = match v2 {
            Some(v2) if v2.same_as(&f.violation) => (small_v, v2),
            _ => (serde_json::to_value(&f.case).unwrap(), f.violation.clone()),
        };
        let name = format!(
            "{}-{}-{}-{:08x}.json",
            P::ID,
            a.seed,
            f.run,
            crate::prng::fnv(format!("{}|{}", viol.class, viol.fingerprint).as_bytes()) as u32
        );
        let rdir = verif_root().join("replays");
        let _ = std::fs::create_dir_all(&rdir);
        let path = rdir.join(name);
        let doc = json!({
            "property": P::ID,
            "verif_seed": a.seed,
            "tier": a.tier.name(),
            "run": f.run,
            "isolated": f.isolated,
            "minimised": {"executions": execs, "original_json_bytes": orig_size,
                          "minimised_json_bytes": case_v.to_string().len()},
            "violation": viol,
            "case": case_v,
        });
        std::fs::write(&path, serde_json::to_string_pretty(&doc).unwrap()).expect("write replay");
        println!("  {}: {} [{}]", viol.class, viol.detail.lines().next().unwrap_or(""), viol.fingerprint);
        println!("VIOLATION property={} replay={}", P::ID, path.display());
        replay_paths.push(path);
    }

    let wall = start.elapsed().as_secs_f64();
    // evidence
    let faults: BTreeMap<&String, &u64> = counters.iter().filter(|(k, _)| k.starts_with("fault.")).collect();
    let reach: BTreeMap<&String, &u64> = counters.iter().filter(|(k, _)| k.starts_with("reach.")).collect();
    let other: BTreeMap<&String, &u64> = counters
        .iter()
        .filter(|(k, _)| !k.starts_with("reach.") && !k.starts_with("fault."))
        .collect();
    let mut stuck: Vec<&str> = vec![];
    for r in meta.reach {
        if counters.get(*r).copied().unwrap_or(0) == 0 {
            stuck.push(r);
        }
    }
    if samples.is_empty() {
        samples.push(json!("no sample captured"));
    }
    let ev = json!({
        "property_id": P::ID,
        "tier": a.tier.name(),
        "seed": a.seed,
        "level": meta.level,
        "coverage": {
            "evaluations": total_runs,
            "distinct_nontrivial": hashes.len(),
            "rule": meta.rule,
            "samples": samples,
            "host_calls": host_calls,
            "simulated_ms": sim_ms,
            "runs_per_hour": if wall > 0.0 { (total_runs as f64 / wall * 3600.0) as u64 } else { 0 },
            "distinct_states": states.len(),
            "faults_fired": faults,
            "reach_probes": reach,
            "reach_probes_stuck_at_zero": stuck,
            "counters": other,
            "components": {"real": meta.real, "stub": meta.stub},
            "known_findings_seen": known_seen,
            "workers": a.workers,
            "stack_mib": stack_bytes() / 1024 / 1024,
            "exhaustive": false
        },
        "assumptions": meta.assumptions,
        "wall_s": wall,
        "violations": fresh_total,
    });
    let edir = verif_root().join("evidence");
    let _ = std::fs::create_dir_all(&edir);
    std::fs::write(edir.join(format!("{}.json", P::ID)), serde_json::to_string_pretty(&ev).unwrap())
        .expect("write evidence");

    println!(
        "{}: runs={} host_calls={} distinct_nontrivial={} states={} violations={} known={} wall={:.1}s",
        P::ID,
        total_runs,
        host_calls,
        hashes.len(),
        states.len(),
        fresh_total,
        known_seen.values().sum::<u64>(),
        wall
    );
    if !stuck.is_empty() {
        println!("note: reach probes at zero in this run: {:?}", stuck);
    }
    if fresh_total > 0 {
        // a violation with its replay file is the verdict; trouble the harness had on the way
        // (workers that died on other cases) is reported but does not change it
        for e in &harness_errors {
            eprintln!("note (harness): {e}");
        }
        return 1;
    }
    if !harness_errors.is_empty() {
        for e in &harness_errors {
            eprintln!("HARNESS-ERROR: {e}");
        }
        return 2;
    }
    if total_runs == 0 {
        eprintln!("HARNESS-ERROR: no runs executed");
        return 2;
    }
    0
}

// ------------------------------------------------------------------ replay

pub fn replay<P: Prop>(path: &Path) -> i32 {
    let txt = std::fs::read_to_string(path).expect("read replay file");
    let doc: Value = serde_json::from_str(&txt).expect("replay json");
    let expected: Violation = serde_json::from_value(doc["violation"].clone()).expect("violation");
    let dir = std::env::temp_dir().join(format!("abasic-sim-replay-{}", std::process::id()));
    std::fs::create_dir_all(&dir).expect("scratch");
    let got = exec_isolated(P::ID, &dir, &doc["case"], "replay");
    let _ = std::fs::remove_dir_all(&dir);
    match got {
        Ok(Some(v)) if v.same_as(&expected) => {
            println!("  {}: {}", v.class, v.detail);
            println!("REPRODUCED property={} class={} fingerprint={}", P::ID, v.class, v.fingerprint);
            println!("VIOLATION property={} replay={}", P::ID, path.display());
            1
        }
        Ok(Some(v)) => {
            println!("  {}: {}", v.class, v.detail);
            println!(
                "DIFFERENT-VIOLATION property={} expected={}|{} got={}|{}",
                P::ID,
                expected.class,
                expected.fingerprint,
                v.class,
                v.fingerprint
            );
            println!("VIOLATION property={} replay={}", P::ID, path.display());
            1
        }
        Ok(None) => {
            println!("NOT-REPRODUCED property={} (the recorded violation does not occur on this tree)", P::ID);
            0
        }
        Err(e) => {
            eprintln!("HARNESS-ERROR: {e}");
            2
        }
    }
}

// ------------------------------------------------------------------ determinism self-test support

/// Print, for runs from..from+count, a canonical hash of (case, violation, host calls, counters).
/// Two invocations with the same arguments must print identical lines.
pub fn logs<P: Prop>(seed: u64, from: u64, count: u64) -> i32 {
    crate::sess::install_panic_hook();
    for i in from..from + count {
        let mut ctx = Ctx::new(P::ID, Tier::Quick);
        ctx.run = i;
        let rs = run_seed(seed, prop_salt(P::ID), i);
        let mut rng = Rng::new(rs);
        let (case, v) = P::run_fresh(&mut rng, &mut ctx);
        let doc = json!({"case": case, "violation": v, "calls": ctx.stats.host_calls, "counters": ctx.stats.counters});
        let mut hs: Vec<u64> = ctx.stats.hashes.iter().copied().collect();
        hs.sort();
        let mut h = crate::prng::fnv(doc.to_string().as_bytes());
        for x in hs {
            crate::prng::fnv_add(&mut h, &x.to_le_bytes());
        }
        println!("{} {:016x} {:016x}", i, rs, h);
    }
    0
}
