//! Wrapper around the real Web adapter (`abasic_web::JsInterpreter`, compiled
//! natively; wasm-bindgen attributes are inert off-wasm). Every adapter call is
//! guarded: an unwind here is a trap in WebAssembly.

use crate::sess::guarded;
use abasic_web::{JsInterpreter, JsInterpreterOutputType, JsInterpreterState};

#[derive(Clone, Copy, Debug, PartialEq, Eq)]
pub enum WSt {
    Idle,
    Running,
    Awaiting,
    Errored,
}

#[derive(Clone, Debug, PartialEq)]
pub struct WOut {
    pub kind: &'static str,
    pub text: String,
}

pub struct WebSess {
    pub js: JsInterpreter,
    pub calls: u64,
}

pub fn kind_of(t: JsInterpreterOutputType) -> &'static str {
    match t {
        JsInterpreterOutputType::Print => "Print",
        JsInterpreterOutputType::Break => "Break",
        JsInterpreterOutputType::Warning => "Warning",
        JsInterpreterOutputType::Trace => "Trace",
        JsInterpreterOutputType::ExtraIgnored => "Extra",
        JsInterpreterOutputType::Reenter => "Reenter",
    }
}

impl WebSess {
    pub fn new() -> WebSess {
        WebSess {
            js: JsInterpreter::new(),
            calls: 0,
        }
    }
    pub fn state(&mut self) -> Result<WSt, String> {
        let js = &self.js;
        guarded(|| match js.get_state() {
            JsInterpreterState::Idle => WSt::Idle,
            JsInterpreterState::Running => WSt::Running,
            JsInterpreterState::AwaitingInput => WSt::Awaiting,
            JsInterpreterState::Errored => WSt::Errored,
        })
    }
    pub fn randomize(&mut self, seed: u64) -> Result<(), String> {
        self.calls += 1;
        let js = &mut self.js;
        guarded(|| js.randomize(seed))
    }
    pub fn start_evaluating(&mut self, line: &str) -> Result<(), String> {
        self.calls += 1;
        let js = &mut self.js;
        let l = line.to_string();
        guarded(|| js.start_evaluating(l))
    }
    pub fn continue_evaluating(&mut self) -> Result<(), String> {
        self.calls += 1;
        let js = &mut self.js;
        guarded(|| js.continue_evaluating())
    }
    pub fn provide_input(&mut self, text: &str) -> Result<(), String> {
        self.calls += 1;
        let js = &mut self.js;
        let t = text.to_string();
        guarded(|| js.provide_input(t))
    }
    pub fn break_at_current_location(&mut self) -> Result<(), String> {
        self.calls += 1;
        let js = &mut self.js;
        guarded(|| js.break_at_current_location())
    }
    pub fn take_latest_output(&mut self) -> Result<Vec<WOut>, String> {
        let js = &mut self.js;
        guarded(|| {
            js.take_latest_output()
                .into_iter()
                .map(|o| WOut {
                    kind: kind_of(o.output_type),
                    text: o.into_string(),
                })
                .collect()
        })
    }
    pub fn take_latest_error(&mut self) -> Result<Option<String>, String> {
        let js = &mut self.js;
        guarded(|| js.take_latest_error())
    }
}
