//! Lock-step refinement: the same program, seed, reply script and (transparent)
//! fault schedule are given to the real interpreter and to the reference model;
//! the streams are compared segment by segment (a segment ends when the
//! interpreter stops running: idle, awaiting input, STOP, error, or the cap).

use crate::ast::*;
use crate::engine::{Ctx, Violation};
use crate::gen::default_reply;
use crate::model::{MErr, MState, Model, Reply};
use crate::prng::Rng;
use crate::sess::{Op, Rec, Res, Sess, St};
use serde::{Deserialize, Serialize};

#[derive(Clone, Debug, Serialize, Deserialize)]
pub struct ProgCase {
    pub lines: Vec<Line>,
    /// seed of the permutation in which the lines are entered
    pub order_seed: u64,
    pub seed: u64,
    pub replies: Vec<Reply>,
    /// global tick indices at which the host breaks in and immediately issues CONT
    pub breaks: Vec<u32>,
    pub tracing: bool,
    pub warnings: bool,
    pub tick_cap: u32,
    /// indices (in answer order) of input requests at which the host first breaks in and issues CONT
    #[serde(default)]
    pub await_breaks: Vec<u32>,
    /// immediate lines issued at successive STOPs before CONT (TRACE / NOTRACE / PRINT 0 ...)
    #[serde(default)]
    pub stop_cmds: Vec<String>,
    /// switch tracing on with the TRACE command instead of the API field
    #[serde(default)]
    pub trace_via_command: bool,
    /// indices (in answer order) of replies after which the host breaks in BEFORE the tick that
    /// consumes the reply, optionally types a command, and issues CONT
    #[serde(default)]
    pub reply_breaks: Vec<(u32, Option<String>)>,
}

#[derive(Clone, Copy, Debug)]
pub struct Compare {
    pub prop: &'static str,
    pub trace: bool,
    pub warnings: bool,
    /// C08: on REENTER nothing but the request may change (probe equality)
    pub reenter_probe: bool,
}

/// readable form of a program case for evidence samples
pub fn prog_view(c: &ProgCase) -> serde_json::Value {
    let order = entry_order(c.lines.len(), c.order_seed);
    serde_json::json!({
        "program_as_entered": order.iter().map(|i| print_line(&c.lines[*i])).collect::<Vec<_>>(),
        "rnd_seed": c.seed,
        "replies": c.replies.iter().map(|r| r.text.clone()).collect::<Vec<_>>(),
        "break+CONT_at_ticks": c.breaks,
        "break_while_awaiting_at_requests": c.await_breaks,
        "break_between_reply_and_consumption": c.reply_breaks,
        "commands_at_STOPs": c.stop_cmds,
        "tracing": c.tracing, "warnings": c.warnings, "tick_cap": c.tick_cap,
    })
}

pub fn entry_order(n: usize, seed: u64) -> Vec<usize> {
    let mut v: Vec<usize> = (0..n).collect();
    let mut r = Rng::new(seed);
    r.shuffle(&mut v);
    v
}

fn visible(r: &Rec, cmp: &Compare) -> bool {
    match r {
        Rec::Print(_) | Rec::Extra | Rec::Reenter | Rec::Break(_) => true,
        Rec::Trace(_) => cmp.trace,
        Rec::Warning(..) => cmp.warnings,
    }
}

fn collapse_traces(v: Vec<Rec>) -> Vec<Rec> {
    // immediate repeats of the same trace record collapse (other records do not separate them)
    let mut out: Vec<Rec> = vec![];
    let mut last_trace: Option<u64> = None;
    for r in v {
        if let Rec::Trace(n) = r {
            if last_trace == Some(n) {
                continue;
            }
            last_trace = Some(n);
        }
        out.push(r);
    }
    out
}

fn brief(r: &[Rec]) -> String {
    let s = format!("{:?}", r);
    if s.len() > 300 {
        let mut cut = 300;
        while !s.is_char_boundary(cut) {
            cut -= 1;
        }
        format!("{}…", &s[..cut])
    } else {
        s
    }
}

pub struct LockOutcome {
    pub ticks: u64,
    pub capped: bool,
    pub inputs_answered: u64,
    pub reenters: u64,
    pub stops: u64,
    pub breaks_fired: u64,
    pub error: Option<String>,
    pub model: Model,
    pub sess: Sess,
    pub await_breaks_fired: u64,
    /// host calls that start or continue evaluation (RUN, CONT, tick)
    pub eval_calls: u64,
    /// for every Print record the session emitted: the number of evaluating calls made so far
    pub print_marks: Vec<u64>,
}

/// Enter the program into a fresh session in the case's order.
pub fn enter_program(s: &mut Sess, c: &ProgCase, prop: &str) -> Result<(), Violation> {
    for i in entry_order(c.lines.len(), c.order_seed) {
        let text = print_line(&c.lines[i]);
        let Some(call) = s.apply(&Op::Line(text.clone())) else {
            return Err(Violation::new(&format!("{prop}/harness"), "line not accepted in state", text));
        };
        match &call.res {
            Res::Ok if call.state == St::Idle && call.recs.is_empty() => {}
            Res::Panic(p) => {
                return Err(Violation::new(&format!("{prop}/panic"), format!("panic@{p}"), format!("entering `{text}` unwound: {p}")))
            }
            other => {
                return Err(Violation::new(
                    &format!("{prop}/line-rejected"),
                    format!("{:?}", other).chars().take(80).collect::<String>(),
                    format!("entering `{text}` gave {:?} recs {:?}", other, call.recs),
                ))
            }
        }
    }
    Ok(())
}

pub fn run_lockstep(c: &ProgCase, cmp: Compare, ctx: &mut Ctx) -> Result<LockOutcome, Violation> {
    let prop = cmp.prop;
    let v = |class: &str, fp: String, detail: String| Violation::new(&format!("{prop}/{class}"), fp, detail);
    let mut s = Sess::new();
    if c.trace_via_command {
        s.apply(&Op::Flags(false, c.warnings));
        if c.tracing {
            let r = s.apply(&Op::Line("TRACE".into())).unwrap();
            if !matches!(r.res, Res::Ok) || !r.recs.is_empty() {
                return Err(v("trace-command", "TRACE".into(), format!("TRACE gave {:?} {:?}", r.res, r.recs)));
            }
        }
    } else {
        s.apply(&Op::Flags(c.tracing, c.warnings));
    }
    enter_program(&mut s, c, prop)?;
    s.apply(&Op::Seed(c.seed));
    let mut m = Model::new(&c.lines, c.seed);
    m.tracing = c.tracing;
    m.warnings = c.warnings;

    let mut ticks: u64 = 0;
    let mut replies = c.replies.iter();
    let mut out = LockOutcome {
        ticks: 0,
        capped: false,
        inputs_answered: 0,
        reenters: 0,
        stops: 0,
        breaks_fired: 0,
        error: None,
        model: Model::new(&[], 0),
        sess: Sess::new(),
        await_breaks_fired: 0,
        eval_calls: 0,
        print_marks: vec![],
    };
    let mut stop_cmds = c.stop_cmds.iter();
    let mut breaks: Vec<u32> = c.breaks.clone();
    breaks.sort();
    breaks.dedup();
    let mut bi = 0usize;

    // the call that starts the segment
    let mut start_op = Op::Line("RUN".into());
    m.run();
    let mut model_err: Option<MErr>;
    let mut seg = 0u32;
    loop {
        seg += 1;
        // ---------------- real: one segment
        let mut real_recs: Vec<Rec> = vec![];
        let mut real_err = None;
        let seg_start_ticks = ticks;
        let mut capped = false;
        let mut pending = Some(start_op.clone());
        loop {
            let op = match pending.take() {
                Some(op) => op,
                None => {
                    if s.state() != St::Running {
                        break;
                    }
                    if ticks >= c.tick_cap as u64 {
                        capped = true;
                        break;
                    }
                    // transparent fault: break + CONT at this boundary
                    if bi < breaks.len() && breaks[bi] as u64 <= ticks {
                        bi += 1;
                        let p = s.probe(false);
                        if p.location.0.is_some() {
                            let b = s.apply(&Op::Break).unwrap();
                            ctx.calls(1);
                            if let Some(pn) = b.panicked() {
                                return Err(v("panic", format!("panic@{pn}"), format!("Break unwound: {pn}")));
                            }
                            out.breaks_fired += 1;
                            ctx.count("fault.break+cont");
                            // BREAK notice dropped; CONT resumes (and executes a statement itself)
                            ticks += 1;
                            Op::Line("CONT".into())
                        } else {
                            ticks += 1;
                            Op::Tick
                        }
                    } else {
                        ticks += 1;
                        Op::Tick
                    }
                }
            };
            let Some(call) = s.apply(&op) else {
                return Err(v("harness", "illegal op".into(), format!("{:?} not legal in {:?}", op, s.state())));
            };
            ctx.calls(1);
            if matches!(&op, Op::Tick) || matches!(&op, Op::Line(t) if t == "RUN" || t == "CONT") {
                out.eval_calls += 1;
            }
            for r in &call.recs {
                if matches!(r, Rec::Print(_)) {
                    out.print_marks.push(out.eval_calls);
                }
            }
            real_recs.extend(call.recs.iter().cloned());
            match &call.res {
                Res::Ok => {}
                Res::Err(e) => {
                    real_err = Some(e.clone());
                    break;
                }
                Res::Panic(p) => {
                    return Err(v("panic", format!("panic@{p}"), format!("{:?} unwound: {p}", op)));
                }
            }
        }
        // a reply is consumed by the next tick, not by provide_input itself
        let seg_ticks = ticks - seg_start_ticks;

        // ---------------- model: the same segment
        let budget = 8 * seg_ticks + 64;
        let r = m.settle(budget);
        model_err = r.err();
        let model_recs: Vec<Rec> = std::mem::take(&mut m.out);

        // ---------------- compare
        let mut rr: Vec<Rec> = real_recs.into_iter().filter(|r| visible(r, &cmp)).collect();
        let mut mr: Vec<Rec> = model_recs.into_iter().filter(|r| visible(r, &cmp)).collect();
        // BREAK notices of injected breaks are not part of the program's behaviour
        // (those of STOP are: they carry a line number in both)
        if out.breaks_fired > 0 {
            // injected breaks were counted; remove exactly the notices the harness caused: they are
            // the Break records that the model does not have at the same position. Simplest sound
            // treatment: drop all Break records on both sides when breaks were injected and compare
            // STOP through the state instead.
            rr.retain(|r| !matches!(r, Rec::Break(_)));
            mr.retain(|r| !matches!(r, Rec::Break(_)));
        }
        if cmp.warnings && rr.iter().any(|r| matches!(r, Rec::Warning(..))) {
            ctx.count("reach.warning_seen");
        }
        if cmp.trace {
            rr = collapse_traces(rr);
            mr = collapse_traces(mr);
        }
        if capped {
            // real was cut: what it produced must be a prefix of what the model produces
            if !(rr.len() <= mr.len() && rr[..] == mr[..rr.len()]) {
                // the cut may fall between a trace record and its statement; compare without the tail
                let k = rr.iter().zip(mr.iter()).take_while(|(a, b)| a == b).count();
                if k < rr.len() {
                    return Err(v(
                        "output-differs",
                        format!("capped-prefix real={} model={}", rr[k].kind(), mr.get(k).map(|r| r.kind()).unwrap_or("none")),
                        format!("segment {seg} (capped): record {k}: real {} vs model {}", brief(&rr[k..(k + 1).min(rr.len())]), brief(&mr[k.min(mr.len())..(k + 1).min(mr.len())])),
                    ));
                }
            }
            out.capped = true;
            ctx.count("reach.run_capped");
            break;
        }
        // failing statement: warnings emitted by the statement that failed are not compared
        if (real_err.is_some() || model_err.is_some()) && cmp.warnings {
            while matches!(rr.last(), Some(Rec::Warning(..))) {
                rr.pop();
            }
            while matches!(mr.last(), Some(Rec::Warning(..))) {
                mr.pop();
            }
        }
        if rr != mr {
            let k = rr.iter().zip(mr.iter()).take_while(|(a, b)| a == b).count();
            return Err(v(
                "output-differs",
                format!(
                    "real={} model={}",
                    rr.get(k).map(|r| r.kind()).unwrap_or("none"),
                    mr.get(k).map(|r| r.kind()).unwrap_or("none")
                ),
                format!(
                    "segment {seg}: record {k}: real {} vs model {} (real err {:?}, model err {:?})",
                    brief(&rr[k.min(rr.len())..(k + 1).min(rr.len())]),
                    brief(&mr[k.min(mr.len())..(k + 1).min(mr.len())]),
                    real_err.as_ref().map(|e| &e.text),
                    model_err
                ),
            ));
        }
        match (&real_err, &model_err) {
            (None, None) => {}
            (Some(e), Some(me)) => {
                if e.kind != me.kind || e.line != me.line {
                    return Err(v(
                        "error-differs",
                        format!("real={} model={}", e.kind, me.kind),
                        format!("segment {seg}: real `{}` (line {:?}) vs model {} (line {:?})", e.text, e.line, me.kind, me.line),
                    ));
                }
                out.error = Some(e.kind.clone());
                ctx.count(&format!("reach.error.{}", e.kind));
                break;
            }
            (Some(e), None) => {
                return Err(v(
                    "error-differs",
                    format!("real={} model=ok", e.kind),
                    format!("segment {seg}: real failed with `{}` but the model continues (state {:?})", e.text, m.state),
                ));
            }
            (None, Some(me)) => {
                return Err(v(
                    "error-differs",
                    format!("real=ok model={}", me.kind),
                    format!("segment {seg}: model fails with {} in {:?} but real continues (state {:?})", me.kind, me.line, s.state()),
                ));
            }
        }
        // ---------------- structure: the table of open loops and the frame count refine the model's
        // (no loop may linger after the NEXT / FOR that forgets it; abandoned loops do not accumulate)
        {
            // between two host calls nothing is being evaluated, whatever the outcome of the segment
            let p = s.probe(false);
            if p.nesting_depth != 0 {
                return Err(v(
                    "nesting-depth-leak",
                    format!("depth {}", p.nesting_depth),
                    format!("segment {seg}: the evaluator's nesting depth is {} at a turn boundary", p.nesting_depth),
                ));
            }
        }
        if real_err.is_none() {
            let p = s.probe(false);
            // the control structure (open loops, frames, defined functions) is compared where the program
            // can still be resumed — it awaits input or sits at a STOP. After a normal end that table is
            // dead state as far as the properties go: an implementation may keep or clear it.
            let resumable = s.state() == St::Awaiting || p.breakpoint.is_some();
            let real_loops: Vec<String> = p.loops.iter().map(|l| l.symbol.clone()).collect();
            if resumable && real_loops != m.loop_vars() {
                return Err(v(
                    "loop-table-differs",
                    format!("real {} model {}", real_loops.len(), m.loops_len()),
                    format!("segment {seg}: open FOR loops are {:?}, the reference model has {:?}", real_loops, m.loop_vars()),
                ));
            }
            // ... and so do the stored scalars (an INPUT, READ or LET whose value is never printed is
            // still "exactly as an assignment of that value would") and the shapes of the arrays
            {
                use abasic_core::VerifValue;
                let mv = m.vars_sorted();
                let mut names: Vec<&String> = p.variables.iter().map(|(n, _)| n).chain(mv.iter().map(|(n, _)| n)).collect();
                names.sort();
                names.dedup();
                for n in names {
                    let real = p.variables.iter().find(|(k, _)| k == n).map(|(_, v)| v.clone());
                    let model = m.var(n);
                    let same = match (&real, &model) {
                        (Some(VerifValue::Num(a)), crate::model::V::N(b)) => a == b || (a.is_nan() && b.is_nan()),
                        (Some(VerifValue::Str(a)), crate::model::V::S(b)) => a == b,
                        (None, crate::model::V::N(b)) => *b == 0.0,
                        (None, crate::model::V::S(b)) => b.is_empty(),
                        _ => false,
                    };
                    if !same {
                        return Err(v(
                            "variable-differs",
                            format!("{}", if n.ends_with('$') { "string" } else { "number" }),
                            format!("segment {seg}: variable {n} holds {:?}, the reference model has {:?}", real, model),
                        ));
                    }
                }
                let rf: Vec<String> = p.functions.iter().map(|f| f.name.clone()).collect();
                if resumable && rf != m.funcs_sorted() {
                    return Err(v(
                        "functions-differ",
                        format!("real {} model {}", rf.len(), m.funcs_sorted().len()),
                        format!("segment {seg}: defined functions are {:?}, the reference model has {:?}", rf, m.funcs_sorted()),
                    ));
                }
                let ra: Vec<(String, Vec<usize>)> = p.arrays.iter().map(|a| (a.name.clone(), a.dimensions.clone())).collect();
                if ra != m.arrays_sorted() {
                    return Err(v(
                        "array-shapes-differ",
                        format!("real {} model {}", ra.len(), m.arrays_sorted().len()),
                        format!("segment {seg}: arrays are {:?}, the reference model has {:?}", ra, m.arrays_sorted()),
                    ));
                }
            }
            if resumable && p.stack.len() != m.frames_len() {
                return Err(v(
                    "frame-count-differs",
                    format!("real {} model {}", p.stack.len(), m.frames_len()),
                    format!("segment {seg}: {} subroutine frames on the stack, the reference model has {}", p.stack.len(), m.frames_len()),
                ));
            }
        }
        // ---------------- states
        let rs = s.state();
        match (rs, m.state) {
            (St::Awaiting, MState::Awaiting) => {
                // answer until the reply is accepted (or storing it fails)
                let mut done = false;
                loop {
                    if c.await_breaks.contains(&(out.inputs_answered as u32)) && out.await_breaks_fired < 50 {
                        // break while the request is pending, then CONT: the request is re-issued once
                        let b = s.apply(&Op::Break).unwrap();
                        ctx.calls(1);
                        if let Some(pn) = b.panicked() {
                            return Err(v("panic", format!("panic@{pn}"), format!("Break while awaiting unwound: {pn}")));
                        }
                        let cont = s.apply(&Op::Line("CONT".into())).unwrap();
                        out.eval_calls += 1;
                        ctx.calls(1);
                        if let Some(pn) = cont.panicked() {
                            return Err(v("panic", format!("panic@{pn}"), format!("CONT unwound: {pn}")));
                        }
                        let extra: Vec<&Rec> = cont.recs.iter().filter(|r| !matches!(r, Rec::Trace(_))).collect();
                        if cont.state != St::Awaiting || cont.err().is_some() || !extra.is_empty() {
                            return Err(v(
                                "await-break-differs",
                                format!("state={:?} err={:?}", cont.state, cont.err().map(|e| e.kind.clone())),
                                format!("break while awaiting + CONT: expected the same request again, got state {:?} recs {:?} err {:?}", cont.state, cont.recs, cont.err()),
                            ));
                        }
                        out.await_breaks_fired += 1;
                        ctx.count("fault.break@awaiting+cont");
                    }
                    let reply = replies.next().cloned().unwrap_or_else(default_reply);
                    let before = if cmp.reenter_probe { Some(s.probe(true)) } else { None };
                    s.apply(&Op::Reply(reply.text.clone()));
                    ctx.calls(1);
                    out.inputs_answered += 1;
                    if reply.surplus {
                        ctx.count("fault.surplus_reply");
                    }
                    if reply.text.is_empty() {
                        ctx.count("fault.empty_reply");
                    }
                    if let Err(e) = m.reply(&reply) {
                        // the model fails while storing the reply: real must fail the same way on its next tick
                        let call = s.apply(&Op::Tick);
                        out.eval_calls += 1;
                        ticks += 1;
                        ctx.calls(1);
                        if let Some(p) = call.as_ref().and_then(|c| c.panicked().map(|p| p.to_string())) {
                            return Err(v("panic", format!("panic@{p}"), format!("tick after reply unwound: {p}")));
                        }
                        let re = call.as_ref().and_then(|c| c.err().cloned());
                        match re {
                            Some(re) if re.kind == e.kind && re.line == e.line => {
                                out.error = Some(re.kind.clone());
                                ctx.count(&format!("reach.error.{}", re.kind));
                                done = true;
                                break;
                            }
                            other => {
                                return Err(v(
                                    "error-differs",
                                    format!("after-reply real={:?} model={}", other.as_ref().map(|e| e.kind.clone()), e.kind),
                                    format!("storing reply {:?}: model fails with {} but real gave {:?}", reply.text, e.kind, other),
                                ))
                            }
                        }
                    }
                    let reentered = m.out.iter().any(|r| matches!(r, Rec::Reenter));
                    if reentered {
                        out.reenters += 1;
                        ctx.count("fault.bad_reply(REENTER)");
                    }
                    if reentered && cmp.reenter_probe {
                        // nothing but the request may change
                        let call = s.apply(&Op::Tick).unwrap();
                        out.eval_calls += 1;
                        ticks += 1;
                        ctx.calls(1);
                        if let Some(p) = call.panicked() {
                            return Err(v("panic", format!("panic@{p}"), format!("tick after bad reply unwound: {p}")));
                        }
                        let mut after = s.probe(true);
                        let mut before = before.unwrap();
                        after.token_reads = 0;
                        before.token_reads = 0;
                        let recs: Vec<Rec> = call.recs.iter().filter(|r| !matches!(r, Rec::Trace(_) | Rec::Warning(..))).cloned().collect();
                        if recs != vec![Rec::Reenter] || call.state != St::Awaiting || call.err().is_some() {
                            return Err(v(
                                "reenter-differs",
                                format!("recs={} state={:?}", recs.iter().map(|r| r.kind()).collect::<Vec<_>>().join(","), call.state),
                                format!("bad reply {:?}: expected exactly REENTER and the same request; got {:?} state {:?} err {:?}", reply.text, call.recs, call.state, call.err()),
                            ));
                        }
                        // (compare as text: NaN != NaN under PartialEq)
                        if format!("{:?}", after) != format!("{:?}", before) {
                            return Err(v(
                                "reenter-state-changed",
                                "probe differs across REENTER".into(),
                                format!("bad reply {:?} changed the state: before {:?} after {:?}", reply.text, before, after),
                            ));
                        }
                        ctx.count("reach.reenter_probe_equal");
                        m.out.clear();
                        continue;
                    }
                    start_op = Op::Tick;
                    ticks += 1;
                    if let Some((_, cmd)) = c.reply_breaks.iter().find(|(k, _)| *k as u64 + 1 == out.inputs_answered) {
                        // the reply has been handed over but not consumed: break, look around, CONT
                        let b = s.apply(&Op::Break).unwrap();
                        ctx.calls(1);
                        if let Some(pn) = b.panicked() {
                            return Err(v("panic", format!("panic@{pn}"), format!("Break after a reply unwound: {pn}")));
                        }
                        let was_tracing = m.tracing;
                        if let Some(cmd) = cmd {
                            let r = s.apply(&Op::Line(cmd.clone())).unwrap();
                            ctx.calls(1);
                            if let Some(pn) = r.panicked() {
                                return Err(v("panic", format!("panic@{pn}"), format!("{cmd} unwound: {pn}")));
                            }
                            if cmd == "TRACE" {
                                m.tracing = true;
                            }
                        }
                        out.breaks_fired += 1;
                        ctx.count("fault.break_after_reply_before_consume");
                        // the model already consumed the reply in `reply()`; with tracing switched on at the
                        // break the re-executed INPUT statement is traced by the real interpreter only now
                        if m.tracing && !was_tracing {
                            if let Some(l) = s.probe(false).breakpoint.map(|b| b.0) {
                                m.out.insert(0, Rec::Trace(l));
                            }
                        }
                        start_op = Op::Line("CONT".into());
                    }
                    break;
                }
                if done {
                    break;
                }
            }
            (St::Idle, MState::Idle) => {
                if m.has_breakpoint() {
                    // STOP: resumable with CONT at the statement after it
                    out.stops += 1;
                    ctx.count("reach.stop+cont");
                    if out.stops > 200 {
                        break;
                    }
                    if let Some(cmd) = stop_cmds.next() {
                        let r = s.apply(&Op::Line(cmd.clone())).unwrap();
                        ctx.calls(1);
                        if let Some(pn) = r.panicked() {
                            return Err(v("panic", format!("panic@{pn}"), format!("{cmd} at STOP unwound: {pn}")));
                        }
                        if r.recs.iter().any(|x| matches!(x, Rec::Trace(_))) {
                            return Err(v("immediate-line-traced", cmd.clone(), format!("immediate line {cmd} produced {:?}", r.recs)));
                        }
                        match cmd.as_str() {
                            "TRACE" => m.tracing = true,
                            "NOTRACE" => m.tracing = false,
                            _ => {}
                        }
                        ctx.count("fault.command_at_stop");
                    }
                    start_op = Op::Line("CONT".into());
                    if let Err(e) = m.cont() {
                        return Err(v("harness", "model cont".into(), format!("{:?}", e)));
                    }
                    ticks += 1;
                } else {
                    break;
                }
            }
            (a, b) => {
                return Err(v(
                    "state-differs",
                    format!("real={:?} model={:?}", a, b),
                    format!("segment {seg}: after equal output the real state is {:?} but the model's is {:?}", a, b),
                ));
            }
        }
        if ticks >= c.tick_cap as u64 + 400 {
            out.capped = true;
            break;
        }
    }
    out.ticks = ticks;
    out.model = m;
    out.sess = s;
    Ok(out)
}

// ------------------------------------------------------------------ shrinking

pub fn shrink_prog_case(c: &ProgCase) -> Vec<ProgCase> {
    let mut out = vec![];
    for lines in crate::engine::shrink_vec(&c.lines) {
        let mut n = c.clone();
        n.lines = lines;
        out.push(n);
    }
    // drop single statements
    for (i, l) in c.lines.iter().enumerate() {
        if l.stmts.len() > 1 {
            for j in 0..l.stmts.len() {
                let mut n = c.clone();
                n.lines[i].stmts.remove(j);
                out.push(n);
            }
        }
        // simplify statements
        for (j, st) in l.stmts.iter().enumerate() {
            for s2 in simplify_stmt(st) {
                let mut n = c.clone();
                n.lines[i].stmts[j] = s2;
                out.push(n);
            }
        }
    }
    if !c.breaks.is_empty() {
        for b in crate::engine::shrink_vec(&c.breaks) {
            let mut n = c.clone();
            n.breaks = b;
            out.push(n);
        }
    }
    if !c.replies.is_empty() {
        for r in crate::engine::shrink_vec(&c.replies) {
            let mut n = c.clone();
            n.replies = r;
            out.push(n);
        }
    }
    if !c.reply_breaks.is_empty() {
        for b in crate::engine::shrink_vec(&c.reply_breaks) {
            let mut n = c.clone();
            n.reply_breaks = b;
            out.push(n);
        }
    }
    if !c.await_breaks.is_empty() {
        for b in crate::engine::shrink_vec(&c.await_breaks) {
            let mut n = c.clone();
            n.await_breaks = b;
            out.push(n);
        }
    }
    if !c.stop_cmds.is_empty() {
        for b in crate::engine::shrink_vec(&c.stop_cmds) {
            let mut n = c.clone();
            n.stop_cmds = b;
            out.push(n);
        }
    }
    if c.trace_via_command {
        let mut n = c.clone();
        n.trace_via_command = false;
        out.push(n);
    }
    if c.tracing {
        let mut n = c.clone();
        n.tracing = false;
        out.push(n);
    }
    if c.warnings {
        let mut n = c.clone();
        n.warnings = false;
        out.push(n);
    }
    if c.order_seed != 0 {
        let mut n = c.clone();
        n.order_seed = 0;
        out.push(n);
    }
    if c.seed != 0 {
        let mut n = c.clone();
        n.seed = 0;
        out.push(n);
    }
    out
}

fn simplify_expr(e: &Expr) -> Vec<Expr> {
    let mut out = vec![];
    match e {
        Expr::Num(_) | Expr::Str(_) | Expr::Var(_) => {}
        Expr::Bin(_, a, b) => {
            out.push((**a).clone());
            out.push((**b).clone());
        }
        Expr::Neg(a) | Expr::Pos(a) | Expr::Not(a) | Expr::Abs(a) | Expr::Int(a) | Expr::Paren(a) | Expr::Rnd(a) => {
            out.push((**a).clone());
        }
        Expr::Cell(..) | Expr::Call(..) => out.push(Expr::Num(1.0)),
    }
    out
}

fn simplify_stmt(s: &Stmt) -> Vec<Stmt> {
    let mut out = vec![];
    match s {
        Stmt::If { cond, then, els } => {
            if let Branch::Stmts(t) = then {
                for x in t {
                    out.push(x.clone());
                }
                if t.len() > 1 {
                    for k in 0..t.len() {
                        let mut t2 = t.clone();
                        t2.remove(k);
                        out.push(Stmt::If { cond: cond.clone(), then: Branch::Stmts(t2), els: els.clone() });
                    }
                }
            }
            if let Some(Branch::Stmts(e)) = els {
                for x in e {
                    out.push(x.clone());
                }
                if e.len() > 1 {
                    for k in 0..e.len() {
                        let mut e2 = e.clone();
                        e2.remove(k);
                        out.push(Stmt::If { cond: cond.clone(), then: then.clone(), els: Some(Branch::Stmts(e2)) });
                    }
                }
            }
            if els.is_some() {
                out.push(Stmt::If { cond: cond.clone(), then: then.clone(), els: None });
            }
            for c2 in simplify_expr(cond) {
                out.push(Stmt::If { cond: c2, then: then.clone(), els: els.clone() });
            }
            out.push(Stmt::If { cond: Expr::Num(1.0), then: then.clone(), els: els.clone() });
            out.push(Stmt::If { cond: Expr::Num(0.0), then: then.clone(), els: els.clone() });
        }
        Stmt::Let { kw, target, e } => {
            for e2 in simplify_expr(e) {
                out.push(Stmt::Let { kw: *kw, target: target.clone(), e: e2 });
            }
        }
        Stmt::Print { q, items } => {
            if items.len() > 1 {
                for k in 0..items.len() {
                    let mut i2 = items.clone();
                    i2.remove(k);
                    out.push(Stmt::Print { q: *q, items: i2 });
                }
            }
            for (k, it) in items.iter().enumerate() {
                if let PItem::E(e) = it {
                    for e2 in simplify_expr(e) {
                        let mut i2 = items.clone();
                        i2[k] = PItem::E(e2);
                        out.push(Stmt::Print { q: *q, items: i2 });
                    }
                }
            }
        }
        Stmt::Def { name, params, body } => {
            for e2 in simplify_expr(body) {
                out.push(Stmt::Def { name: name.clone(), params: params.clone(), body: e2 });
            }
        }
        Stmt::Read(ts) if ts.len() > 1 => {
            for k in 0..ts.len() {
                let mut t2 = ts.clone();
                t2.remove(k);
                out.push(Stmt::Read(t2));
            }
        }
        Stmt::Data(items) if items.len() > 1 => {
            for k in 0..items.len() {
                let mut t2 = items.clone();
                t2.remove(k);
                out.push(Stmt::Data(t2));
            }
        }
        _ => {}
    }
    out
}
