//! Text pools a real host can produce at the worst moment: token soup, character
//! soup, boundary numerals, deep nesting. Shared by C01, C19, C20.

use crate::prng::Rng;

pub const KEYWORDS: &[&str] = &[
    "DIM", "LET", "PRINT", "INPUT", "GOTO", "GOSUB", "RETURN", "IF", "THEN", "ELSE", "AND", "OR", "NOT", "END",
    "STOP", "FOR", "TO", "NEXT", "STEP", "READ", "RESTORE", "DEF", "REM", "DATA",
];
pub const PUNCT: &[&str] = &[
    ":", ";", ",", "?", "(", ")", "+", "-", "*", "/", "^", "=", "<>", "<", "<=", ">", ">=",
];
pub const COMMANDS: &[&str] = &["RUN", "LIST", "NEW", "CONT", "TRACE", "NOTRACE", "INTERNALS", "STATS"];
pub const IDENTS: &[&str] = &[
    "A", "B", "X", "Y", "I", "J", "K", "A$", "B$", "X$", "Q", "Q$", "Z9", "FNA", "FNB", "ABS", "INT", "RND", "W1$",
];

/// numerals at the boundaries the property statement names
pub const BOUNDARY_NUMS: &[&str] = &[
    "0",
    "1",
    "-1",
    "10",
    "11",
    "31",
    "32",
    "33",
    "99",
    "100",
    "101",
    "9999",
    "10000",
    "10001",
    "65535",
    "65536",
    "2147483647",
    "2147483648",
    "4294967295",
    "4294967296",
    "9007199254740992",
    "9007199254740993",
    "9223372036854775807",
    "9223372036854775808",
    "18446744073709551614",
    "18446744073709551615",
    "18446744073709551616",
    "99999999999999999999999999",
    "123456789012345678901234567890",
    ".5",
    "007",
    "1.",
    "1.2.3",
    ".",
    "1E3",
    "0.1",
    "1e309",
];

pub const BOUNDARY_SEEDS: &[u64] = &[
    0,
    1,
    (1 << 33) - 1,
    1 << 33,
    (1 << 33) + 1,
    1 << 40,
    1 << 43,
    (1 << 44) - 1,
    1 << 44,
    (1 << 44) + 1,
    1 << 53,
    1 << 63,
    // the states in front of the two ends of the interval: the one whose successor is state 0 (value 0,
    // the closed end), its two predecessors, and the one whose successor is 2^33 - 1 (the largest value);
    // also reached from beyond 2^33
    4929753061,
    4150723358,
    6164432379,
    4948604704,
    2480864133,
    4929753061 + (1 << 33),
    4929753061 + (7 << 40),
    u64::MAX - 1,
    u64::MAX,
    11078683905229,
    11082669072384,
];

pub fn boundary_line_numbers() -> &'static [&'static str] {
    &[
        "0",
        "1",
        "00010",
        "9223372036854775808",
        "18446744073709551614",
        "18446744073709551615",
        "18446744073709551616",
    ]
}

pub fn long_numeral(rng: &mut Rng) -> String {
    let n = rng.pick(&[20usize, 40, 100, 310, 400]);
    let mut s = String::new();
    for i in 0..n {
        if i == 0 {
            s.push((b'1' + rng.below(9) as u8) as char);
        } else {
            s.push((b'0' + rng.below(10) as u8) as char);
        }
    }
    if rng.chance(1, 4) {
        let k = rng.usize(s.len());
        s.insert(k, '.');
    }
    s
}

pub fn any_numeral(rng: &mut Rng) -> String {
    match rng.below(10) {
        0..=5 => rng.pick(BOUNDARY_NUMS).to_string(),
        6 => long_numeral(rng),
        7 => format!("{}", rng.below(100)),
        8 => format!("{}.{}", rng.below(1000), rng.below(1000)),
        _ => format!("{}", rng.next()),
    }
}

/// Statement and command forms of real Applesoft (and of neighbouring dialects) that the pinned dialect
/// does not have, or has only in part: what the next pull request is most likely to add. On the pinned
/// tree most of them are syntax errors or unknown identifiers — which is exactly what the "never
/// crashes" checks need to keep being true once they start to mean something. `{n}` `{m}` are replaced
/// by numerals (boundary values included), `{v}` by an identifier.
const FOREIGN_FORMS: &[&str] = &[
    "LIST {n}", "LIST {n}-{m}", "LIST {n} - {m}", "LIST -{n}", "LIST {n}-", "LIST {n},{m}", "LIST ,{n}", "LIST {v}",
    "RUN {n}", "RUN {v}", "CONT {n}", "NEW {n}", "DEL {n},{m}", "DEL {n}", "TRACE {n}", "NOTRACE {n}", "STATS {n}", "INTERNALS {n}",
    "INPUT {v}, {v}", "INPUT {v}, {v}, {v}$", "INPUT \"HOW MANY\"; {v}", "INPUT \"\"; {v}, {v}", "INPUT {v}$, {v}$, {v}$", "INPUT", "INPUT ,", "INPUT {v},",
    "GET {v}$", "GET {v}", "ON {v} GOTO {n}, {m}", "ON {n} GOSUB {n}, {m}", "ON {v} GOTO", "POP", "CLEAR", "HOME", "TEXT",
    "HTAB {n}", "VTAB {n}", "POKE {n}, {m}", "CALL {n}", "CALL -{n}", "PR#{n}", "IN#{n}", "SPEED = {n}", "HIMEM: {n}", "LOMEM: {n}",
    "ONERR GOTO {n}", "RESUME", "WAIT {n}, {m}", "& {v}", "PRINT PEEK({n})", "PRINT FRE({n})", "PRINT POS({n})", "PRINT USR({n})",
    "PRINT TAB({n}); {v}", "PRINT SPC({n}); {v}", "PRINT LEN({v}$)", "PRINT LEFT$({v}$, {n})", "PRINT RIGHT$({v}$, {n})",
    "PRINT MID$({v}$, {n}, {m})", "PRINT MID$({v}$, {n})", "PRINT STR$({n})", "PRINT VAL({v}$)", "PRINT VAL(\"{n}\")", "PRINT CHR$({n})",
    "PRINT ASC({v}$)", "PRINT ASC(\"\")", "PRINT SQR({n})", "PRINT SQR(-{n})", "PRINT SIN({n})", "PRINT COS({n})", "PRINT TAN({n})",
    "PRINT ATN({n})", "PRINT LOG({n})", "PRINT LOG(0)", "PRINT EXP({n})", "PRINT SGN({n})", "PRINT {n}E{m}", "PRINT {n}E-{m}", "PRINT {n}E{m}E5",
    "PRINT .{n}e{m}", "PRINT {n} MOD {m}", "PRINT {n} \\ {m}", "{v} = {n}E{m}", "DIM {v}", "DIM {v}, {v}({n})", "DIM {v}({n}), {v}$({m})",
    "NEXT", "NEXT {v}, {v}", "FOR {v} = {n} TO {m} : NEXT", "READ", "RESTORE {n}", "RETURN {n}", "GOTO {v}", "GOSUB {v}", "STOP {n}", "END {n}",
    "DEF FN {v}({v}, {v}) = {v}", "DEF FN {v}() = {n}", "DEF {v}({v}) = {n}", "LET {v} = {n}", "LET {v}$ = \"x\"", "{v}% = {n}", "PRINT {v}%",
    "IF {v} THEN", "IF {v} GOTO {n}", "IF {v} THEN {n} ELSE {m}", "IF {v} THEN ELSE", "PRINT {v};{v}", "PRINT ;", "PRINT ,", "? {v}", "?",
    "' {v}", "REM", "DATA", "DATA ,", "DATA {n}E{m}, -{n}, +{n}", "RANDOMIZE {n}", "RANDOMIZE", "PRINT RND", "PRINT RND()", "PRINT RND({n}, {m})",
    "PRINT INT()", "PRINT ABS", "PRINT NOT", "PRINT -", "PRINT {n} {m}", "SAVE {v}", "LOAD {v}", "CATALOG", "EXIT", "QUIT", "BYE", "HELP",
];

pub fn foreign_form(rng: &mut Rng) -> String {
    let form = rng.pick(FOREIGN_FORMS);
    let mut out = String::new();
    let mut rest = form;
    while let Some(i) = rest.find('{') {
        out.push_str(&rest[..i]);
        let key = &rest[i..i + 3];
        match key {
            "{v}" => out.push_str(rng.pick(&["A", "B", "I", "X", "Q", "Z9", "E5", "A$"]).trim_end_matches('$')),
            _ => {
                let n = match rng.below(8) {
                    0 => rng.pick(BOUNDARY_NUMS).to_string(),
                    1 => "0".to_string(),
                    2 => format!("{}", rng.pick(&[255u64, 256, 32767, 32768, 65535, 65536, 4294967295, 4294967296])),
                    3 => "18446744073709551615".to_string(),
                    _ => format!("{}", rng.below(60)),
                };
                out.push_str(n.trim_start_matches('-'));
            }
        }
        rest = &rest[i + 3..];
    }
    out.push_str(rest);
    if rng.chance(1, 4) {
        out = out.to_lowercase();
    }
    out
}

pub fn token_soup(rng: &mut Rng, max_tokens: usize) -> String {
    let n = 1 + rng.usize(max_tokens);
    let mut out = String::new();
    for _ in 0..n {
        let t: String = match rng.below(12) {
            0..=3 => rng.pick(KEYWORDS).to_string(),
            4..=6 => rng.pick(PUNCT).to_string(),
            7..=8 => rng.pick(IDENTS).to_string(),
            9 => any_numeral(rng),
            10 => format!("\"{}\"", rng.pick(&["", "A", "hi there", "é", "a:b,c"])),
            _ => rng.pick(&["(", ")", "(", ")", ",", "="]).to_string(),
        };
        out.push_str(&t);
        if rng.chance(3, 4) {
            out.push(' ');
        }
    }
    out
}

const SOUP_CHARS: &[&str] = &[
    "a", "Z", "0", "9", " ", "\t", "\"", "'", "%", "&", "!", "#", "@", "$", "_", ".", "\\", "`", "~", "{", "}", "[",
    "]", "|", "\r", "\n", "\u{0}", "\u{7f}", "\u{b}", "\u{c}", "é", "ß", "→", "日", "本", "💥", "𝄞", "\u{feff}",
    "\u{200b}", "\u{a0}", "\u{2028}", "ǅ", "ﬁ", "İ", "ı",
];

pub fn char_soup(rng: &mut Rng, max_chars: usize) -> String {
    let n = rng.usize(max_chars + 1);
    let mut out = String::new();
    for _ in 0..n {
        match rng.below(8) {
            0..=4 => out.push_str(rng.pick(SOUP_CHARS)),
            5 => out.push_str(rng.pick(KEYWORDS)),
            6 => out.push_str(rng.pick(PUNCT)),
            _ => {
                // arbitrary scalar value
                let c = loop {
                    let v = rng.below(0x110000) as u32;
                    if let Some(c) = char::from_u32(v) {
                        break c;
                    }
                };
                out.push(c);
            }
        }
    }
    out
}

#[derive(Clone, Copy, Debug, PartialEq)]
pub enum NestKind {
    Paren,
    Array,
    IfThen,
    IfElse,
    Builtin,
    Unary,
    Fn,
    DefBody,
}

pub const NEST_KINDS: &[NestKind] = &[
    NestKind::Paren,
    NestKind::Array,
    NestKind::IfThen,
    NestKind::IfElse,
    NestKind::Builtin,
    NestKind::Unary,
    NestKind::Fn,
    NestKind::DefBody,
];

/// a statement nested `depth` deep
pub fn nested(kind: NestKind, depth: usize) -> String {
    match kind {
        NestKind::Paren => format!("PRINT {}1{}", "(".repeat(depth), ")".repeat(depth)),
        NestKind::Array => format!("PRINT {}0{}", "A(".repeat(depth), ")".repeat(depth)),
        NestKind::IfThen => format!("{}PRINT 1", "IF 1 THEN ".repeat(depth)),
        NestKind::IfElse => format!("{}PRINT 1", "IF 0 THEN X=1 ELSE ".repeat(depth)),
        NestKind::Builtin => format!("X = {}1{}", "ABS(INT(".repeat(depth / 2 + 1), "))".repeat(depth / 2 + 1)),
        NestKind::Unary => format!("PRINT {}1{}", "-(".repeat(depth), ")".repeat(depth)),
        NestKind::Fn => format!("PRINT {}1{}", "FN F(".repeat(depth), ")".repeat(depth)),
        NestKind::DefBody => format!("DEF FN F(X) = {}X{}", "(".repeat(depth), ")".repeat(depth)),
    }
}

/// a statement that is *long* rather than deep: a flat chain of one binary operator, separator or
/// list item, `n` links long (no parentheses, no nesting: the evaluator's nesting cap never applies,
/// so nothing but iteration keeps the native stack flat)
pub fn flat_chain(rng: &mut Rng, n: usize) -> String {
    match rng.below(18) {
        0 => format!("PRINT 0{}", " OR 0".repeat(n)),
        1 => format!("PRINT 1{}", " AND 1".repeat(n)),
        2 => format!("PRINT 1{}", " + 1".repeat(n)),
        3 => format!("PRINT 1{}", " * 1".repeat(n)),
        4 => format!("PRINT 1{}", " = 1".repeat(n)),
        5 => format!("PRINT 1{}", " ^ 1".repeat(n)),
        6 => format!("PRINT \"a\"{}", " + \"a\"".repeat(n.min(20000))),
        7 => format!("PRINT 1{}", ";1".repeat(n.min(20000))),
        8 => format!("X = 1{}", " : X = 1".repeat(n)),
        9 => ":".repeat(n),
        10 => format!("DATA 1{}", ",1".repeat(n)),
        11 => format!("PRINT 1{}", " - 1".repeat(n)),
        12 => format!("PRINT 1{}", " < 1".repeat(n)),
        14 => format!("PRINT {}1", "-".repeat(n)),
        15 => format!("PRINT {}1", "NOT ".repeat(n)),
        16 => format!("PRINT {}1", "- + ".repeat(n / 2)),
        _ => format!("IF 1{} THEN PRINT 1", " OR 1".repeat(n)),
    }
}

pub fn flat_length(rng: &mut Rng, allow_huge: bool) -> usize {
    if allow_huge {
        rng.pick(&[100usize, 100, 1000, 3000, 3000, 20000, 20000, 20000, 100000, 300000])
    } else {
        rng.pick(&[10usize, 100, 1000])
    }
}

pub fn nest_depth(rng: &mut Rng, allow_huge: bool) -> usize {
    if allow_huge {
        rng.pick(&[10usize, 33, 100, 300, 1000, 2500, 5000, 20000, 100000])
    } else {
        rng.pick(&[3usize, 10, 31, 32, 33, 64, 100, 200])
    }
}

pub fn many_subscripts(rng: &mut Rng) -> String {
    let n = rng.pick(&[1usize, 2, 3, 4, 5, 10, 18, 19, 20, 25]);
    let v = rng.pick(&["10", "0", "1", "9", "99", "4294967295", "2"]);
    let subs = vec![v; n].join(",");
    match rng.below(4) {
        0 => format!("DIM A({subs})"),
        1 => format!("PRINT Q({subs})"),
        2 => format!("Q({subs}) = 1"),
        _ => format!("DIM A$({subs})"),
    }
}

/// boundary-value statements named by the property statement
pub fn boundary_statement(rng: &mut Rng) -> String {
    let n = any_numeral(rng);
    let m = any_numeral(rng);
    match rng.below(16) {
        0 => format!("DIM A({n})"),
        1 => format!("DIM A({n},{m})"),
        2 => format!("PRINT A({n})"),
        3 => format!("A({n}) = {m}"),
        4 => format!("GOTO {n}"),
        5 => format!("GOSUB {n}"),
        6 => format!("IF 1 THEN {n}"),
        7 => format!("IF 0 THEN 1 ELSE {n}"),
        8 => format!("X = {n}"),
        9 => format!("PRINT {n} ^ {m}"),
        10 => format!("FOR I = {n} TO {m} STEP {}", any_numeral(rng)),
        11 => format!("PRINT RND({n})"),
        12 => many_subscripts(rng),
        13 => format!("PRINT INT({n}) ; ABS(-{m})"),
        14 => format!("DIM B$({n},{m},{n})"),
        _ => format!("PRINT A(-{n})"),
    }
}
