//! Structured program generator: emits the AST (the model's input) whose BASIC
//! spelling (ast::print_line) is abasic's input.

use crate::ast::*;
use crate::model::{Reply, ReplyItem};
use crate::prng::Rng;

pub const NUM_VARS: &[&str] = &["C", "J", "K", "Q", "V", "W", "Y", "Z", "C1", "QZ", "KW2"];
pub const STR_VARS: &[&str] = &["C$", "J$", "K$", "Q$", "W$"];
pub const NUM_ARRAYS: &[&str] = &["C", "V", "YZ", "K"];
pub const STR_ARRAYS: &[&str] = &["C$", "Z$"];
pub const FUNCS: &[&str] = &["FNC", "FNJ", "FNK", "FNQ"];
pub const WORDS: &[&str] = &["hello", "abc", "x y", "Zed", "q", "foo bar baz", "é", "日本", "-", "a.b", "1x", "x1", "HELLO"];

#[derive(Clone, Debug)]
pub struct Knobs {
    pub max_lines: usize,
    pub expr_depth: u32,
    pub input: bool,
    pub stop: bool,
    pub failures: bool,
    pub wild_goto_pct: u64,
    pub dense_numbers: bool,
    /// line numbers start far up (beyond 63999 / 2^32 / near 2^64)
    pub line_base: u64,
    pub strings: bool,
    pub arrays: bool,
    pub funcs: bool,
    pub data: bool,
    pub rnd: bool,
    pub gosub: bool,
    pub for_loops: bool,
    pub else_forms: bool,
    pub multi_stmt: bool,
    pub redundant_parens: bool,
    /// allow statements (STOP/INPUT/GOSUB/FOR) as the THEN statement of an IF that has an ELSE
    pub resumable_in_then_else: bool,
    /// function bodies read only scalars (no arrays, no RND): calling them has no side effect
    pub pure_fn_bodies: bool,
    /// add `DEF FNK(J) = J / 0` (always fails) and `DEF FNQ(J) = FNQ(J) + 1` (overflows the frame cap)
    pub special_defs: bool,
    /// INPUT targets may have a subscript that draws a random number (evaluated once per attempt)
    pub rnd_input_subscript: bool,
    /// IF a THEN IF b THEN x ELSE y ELSE z
    pub nested_else: bool,
}

impl Knobs {
    pub fn swarm(rng: &mut Rng) -> Knobs {
        let mut on = |p: u64| rng.chance(p, 100);
        Knobs {
            max_lines: 0,
            expr_depth: 0,
            input: false,
            stop: false,
            failures: on(40),
            wild_goto_pct: 0,
            dense_numbers: on(30),
            line_base: 0,
            strings: on(80),
            arrays: on(80),
            funcs: on(70),
            data: on(75),
            rnd: on(50),
            gosub: on(80),
            for_loops: on(85),
            else_forms: on(80),
            multi_stmt: on(80),
            redundant_parens: on(30),
            resumable_in_then_else: true,
            pure_fn_bodies: false,
            special_defs: false,
            rnd_input_subscript: false,
            nested_else: true,
        }
        .finish(rng)
    }
    fn finish(mut self, rng: &mut Rng) -> Knobs {
        self.max_lines = 4 + rng.usize(28);
        self.expr_depth = 1 + rng.below(3) as u32;
        self.wild_goto_pct = rng.pick(&[0u64, 0, 0, 3, 10]);
        self
    }
}

pub struct Gen<'a> {
    pub rng: &'a mut Rng,
    pub k: Knobs,
    /// functions defined so far (name, arity)
    /// functions defined so far: name and, per parameter, whether it is a string parameter
    funcs: Vec<(String, Vec<bool>)>,
    /// open FOR variables (innermost last)
    open_loops: Vec<String>,
    /// names used so far
    pub used_num: Vec<String>,
    pub used_str: Vec<String>,
    pub inputs: usize,
    pub stops: usize,
    lines: Vec<Vec<Stmt>>,
    /// indices of subroutine entry lines (filled while laying out)
    sub_entries: Vec<usize>,
    counter: usize,
}

impl<'a> Gen<'a> {
    pub fn new(rng: &'a mut Rng, k: Knobs) -> Gen<'a> {
        Gen {
            rng,
            k,
            funcs: vec![],
            open_loops: vec![],
            used_num: vec![],
            used_str: vec![],
            inputs: 0,
            stops: 0,
            lines: vec![],
            sub_entries: vec![],
            counter: 0,
        }
    }

    // ------------------------------------------------------------ expressions

    pub fn num_var(&mut self) -> String {
        let n = self.rng.pick(NUM_VARS).to_string();
        if !self.used_num.contains(&n) {
            self.used_num.push(n.clone());
        }
        n
    }
    pub fn str_var(&mut self) -> String {
        let n = self.rng.pick(STR_VARS).to_string();
        if !self.used_str.contains(&n) {
            self.used_str.push(n.clone());
        }
        n
    }

    pub fn small_int(&mut self) -> f64 {
        match self.rng.below(10) {
            0..=5 => self.rng.below(6) as f64,
            6..=7 => self.rng.below(12) as f64,
            8 => self.rng.below(100) as f64,
            _ => self.rng.pick(&[0.5, 1.5, 2.25, 0.1, 10.0, 11.0, 32.0, 33.0, 100.0, 3.7]),
        }
    }

    fn index_list(&mut self, arity: usize, depth: u32) -> Vec<Expr> {
        (0..arity)
            .map(|_| {
                if depth == 0 || self.rng.chance(3, 5) {
                    // mostly in range 0..10, sometimes 11 (bad subscript when failures are on)
                    let hi = if self.k.failures && self.rng.chance(1, 12) { 12 } else { 11 };
                    Expr::Num(self.rng.below(hi) as f64)
                } else if self.rng.chance(1, 2) {
                    Expr::Var(self.num_var())
                } else {
                    Expr::Num(self.rng.below(4) as f64 + 0.5)
                }
            })
            .collect()
    }

    fn arity_of(name: &str) -> usize {
        // fixed arity per array name so that implicit and explicit uses agree (mostly)
        match name {
            "C" | "C$" => 1,
            "V" | "Z$" => 2,
            "YZ" => 3,
            _ => 1,
        }
    }

    fn dims_of(name: &str) -> Vec<usize> {
        // distinct sizes per axis so that an index swap is visible
        match name {
            "C" => vec![12],
            "C$" => vec![5],
            "V" => vec![4, 7],
            "Z$" => vec![2, 3],
            "YZ" => vec![2, 3, 4],
            _ => vec![20],
        }
    }

    pub fn num_cell(&mut self, depth: u32) -> Expr {
        let name = self.rng.pick(NUM_ARRAYS).to_string();
        let mut arity = Self::arity_of(&name);
        if self.k.failures && self.rng.chance(1, 40) {
            arity = 1 + self.rng.usize(3);
        }
        Expr::Cell(name, self.index_list(arity, depth))
    }

    pub fn str_cell(&mut self, depth: u32) -> Expr {
        let name = self.rng.pick(STR_ARRAYS).to_string();
        let arity = Self::arity_of(&name);
        Expr::Cell(name, self.index_list(arity, depth))
    }

    pub fn num_expr(&mut self, depth: u32) -> Expr {
        let e = self.num_expr_inner(depth);
        if self.k.redundant_parens && self.rng.chance(1, 6) {
            Expr::Paren(Box::new(e))
        } else {
            e
        }
    }

    fn num_expr_inner(&mut self, depth: u32) -> Expr {
        if depth == 0 || self.rng.chance(1, 3) {
            return match self.rng.below(12) {
                0..=4 => Expr::Num(self.small_int()),
                5..=8 => Expr::Var(self.num_var()),
                9 if self.k.arrays => self.num_cell(depth),
                10 if self.k.funcs && !self.funcs.is_empty() => self.call(depth),
                11 if self.k.rnd => Expr::Rnd(Box::new(Expr::Num(self.rng.pick(&[1.0, 1.0, 0.0, 5.0])))),
                _ => Expr::Num(self.small_int()),
            };
        }
        let d = depth - 1;
        match self.rng.below(20) {
            0..=2 => Expr::Bin(BinOp::Add, Box::new(self.num_expr(d)), Box::new(self.num_expr(d))),
            3..=4 => Expr::Bin(BinOp::Sub, Box::new(self.num_expr(d)), Box::new(self.num_expr(d))),
            5..=6 => Expr::Bin(BinOp::Mul, Box::new(self.num_expr(d)), Box::new(self.num_expr(d))),
            7 => {
                // division: denominator rarely zero unless failures are wanted
                let den = if self.k.failures && self.rng.chance(1, 6) {
                    self.num_expr(d)
                } else {
                    Expr::Bin(BinOp::Add, Box::new(Expr::Abs(Box::new(self.num_expr(d)))), Box::new(Expr::Num(1.0)))
                };
                Expr::Bin(BinOp::Div, Box::new(self.num_expr(d)), Box::new(den))
            }
            8 => Expr::Bin(
                BinOp::Pow,
                Box::new(self.num_expr(d)),
                Box::new(Expr::Num(self.rng.pick(&[0.0, 1.0, 2.0, 3.0, 0.5]))),
            ),
            9 => Expr::Neg(Box::new(self.num_expr(d))),
            10 => Expr::Not(Box::new(self.num_expr(d))),
            11..=13 => {
                let op = self.rng.pick(&[BinOp::Eq, BinOp::Ne, BinOp::Lt, BinOp::Le, BinOp::Gt, BinOp::Ge]);
                if self.k.strings && self.rng.chance(1, 4) {
                    Expr::Bin(op, Box::new(self.str_expr(d)), Box::new(self.str_expr(d)))
                } else {
                    Expr::Bin(op, Box::new(self.num_expr(d)), Box::new(self.num_expr(d)))
                }
            }
            14 => Expr::Bin(BinOp::And, Box::new(self.any_expr(d)), Box::new(self.any_expr(d))),
            15 => Expr::Bin(BinOp::Or, Box::new(self.any_expr(d)), Box::new(self.any_expr(d))),
            16 => Expr::Abs(Box::new(self.num_expr(d))),
            17 => Expr::Int(Box::new(self.num_expr(d))),
            18 if self.k.funcs && !self.funcs.is_empty() => self.call(d),
            19 if self.k.failures && self.k.strings && self.rng.chance(1, 3) => {
                // intended TYPE MISMATCH
                Expr::Bin(BinOp::Add, Box::new(self.num_expr(d)), Box::new(self.str_expr(d)))
            }
            _ => Expr::Pos(Box::new(self.num_expr(d))),
        }
    }

    pub fn str_expr(&mut self, depth: u32) -> Expr {
        match self.rng.below(8) {
            0..=3 => Expr::Str(self.rng.pick(WORDS).to_string()),
            4 => Expr::Str(String::new()),
            5..=6 => Expr::Var(self.str_var()),
            _ if self.k.arrays => self.str_cell(depth),
            _ => Expr::Var(self.str_var()),
        }
    }

    pub fn any_expr(&mut self, depth: u32) -> Expr {
        if self.k.strings && self.rng.chance(1, 4) {
            self.str_expr(depth)
        } else {
            self.num_expr(depth)
        }
    }

    fn call(&mut self, depth: u32) -> Expr {
        let (name, kinds) = self.rng.pick(&self.funcs.clone());
        let d = depth.saturating_sub(1);
        let args = kinds
            .iter()
            .map(|is_str| {
                // an ill-typed argument now and then (TYPE MISMATCH while binding the parameter)
                let flip = self.k.failures && self.rng.chance(1, 30);
                if *is_str != flip {
                    self.str_expr(1)
                } else {
                    self.num_expr(d.min(1))
                }
            })
            .collect();
        Expr::Call(name, args)
    }

    // ------------------------------------------------------------ statements

    pub fn num_target(&mut self) -> LValue {
        if self.k.arrays && self.rng.chance(1, 4) {
            let Expr::Cell(name, idx) = self.num_cell(1) else { unreachable!() };
            LValue { name, index: Some(idx) }
        } else {
            LValue {
                name: self.num_var(),
                index: None,
            }
        }
    }

    pub fn str_target(&mut self) -> LValue {
        if self.k.arrays && self.rng.chance(1, 4) {
            let Expr::Cell(name, idx) = self.str_cell(1) else { unreachable!() };
            LValue { name, index: Some(idx) }
        } else {
            LValue {
                name: self.str_var(),
                index: None,
            }
        }
    }

    pub fn assignment(&mut self) -> Stmt {
        let kw = self.rng.chance(1, 4);
        if self.k.strings && self.rng.chance(1, 4) {
            let target = self.str_target();
            let e = if self.k.failures && self.rng.chance(1, 15) {
                self.num_expr(1)
            } else {
                self.str_expr(1)
            };
            Stmt::Let { kw, target, e }
        } else {
            let target = self.num_target();
            let d = self.k.expr_depth;
            let e = if self.k.failures && self.k.strings && self.rng.chance(1, 25) {
                self.str_expr(1)
            } else {
                self.num_expr(d)
            };
            Stmt::Let { kw, target, e }
        }
    }

    pub fn print(&mut self) -> Stmt {
        let n = self.rng.usize(4);
        let mut items = vec![];
        for i in 0..n {
            let d = self.k.expr_depth;
            // juxtaposition without a separator (`PRINT "A" C "B"`) is legal where no operator can
            // continue the expression: string literal next to a scalar variable or another literal
            let prev_lit_or_var = matches!(items.last(), Some(PItem::E(Expr::Str(_))) | Some(PItem::E(Expr::Var(_))));
            if prev_lit_or_var {
                let e = if matches!(items.last(), Some(PItem::E(Expr::Var(_)))) || self.rng.chance(1, 2) {
                    Expr::Str(self.rng.pick(WORDS).to_string())
                } else {
                    Expr::Var(self.num_var())
                };
                items.push(PItem::E(e));
            } else {
                items.push(PItem::E(self.any_expr(d)));
            }
            if i + 1 < n {
                let juxtapose = matches!(items.last(), Some(PItem::E(Expr::Str(_))) | Some(PItem::E(Expr::Var(_)))) && self.rng.chance(1, 4);
                if !juxtapose {
                    items.push(if self.rng.chance(2, 3) { PItem::Semi } else { PItem::Comma });
                }
            }
        }
        if n > 0 && self.rng.chance(1, 4) {
            items.push(if self.rng.chance(3, 4) { PItem::Semi } else { PItem::Comma });
        }
        if n == 0 && self.rng.chance(1, 6) {
            items.push(PItem::Semi);
        }
        Stmt::Print {
            q: self.rng.chance(1, 8),
            items,
        }
    }

    /// a tagged print so that control flow is visible in the output
    pub fn tag(&mut self) -> Stmt {
        self.counter += 1;
        let mut items = vec![PItem::E(Expr::Str(format!("t{}", self.counter)))];
        if self.rng.chance(1, 2) {
            items.push(PItem::Semi);
            items.push(PItem::E(Expr::Var(self.num_var())));
        }
        Stmt::Print { q: false, items }
    }

    fn data_item(&mut self) -> DataItem {
        match self.rng.below(6) {
            0..=2 => DataItem::Num(self.small_int()),
            3 if self.k.strings => DataItem::Bare(self.rng.pick(&["hello", "abc", "x y", "Zed", "é", "foo bar"]).to_string()),
            4 if self.k.strings => DataItem::Quoted(self.rng.pick(&["a,b", "x:y", " padded ", "", "PLAIN", "日本"]).to_string()),
            _ => DataItem::Num(self.rng.below(50) as f64),
        }
    }

    pub fn simple(&mut self) -> Stmt {
        loop {
            let s = match self.rng.below(22) {
                0..=5 => self.assignment(),
                6..=9 => self.print(),
                10..=11 => self.tag(),
                12 if self.k.data => {
                    let n = 1 + self.rng.usize(3);
                    let ts = (0..n)
                        .map(|_| {
                            if self.k.strings && self.rng.chance(1, 3) {
                                self.str_target()
                            } else {
                                self.num_target()
                            }
                        })
                        .collect();
                    Stmt::Read(ts)
                }
                13 if self.k.data => Stmt::Restore,
                // a bare `DIM X` / `DIM X$`: a no-op that must not count as an assignment
                14 if self.k.arrays && self.rng.chance(1, 8) => {
                    let n = if self.k.strings && self.rng.chance(1, 3) { self.str_var() } else { self.num_var() };
                    Stmt::Dim(n, vec![])
                }
                14 if self.k.arrays => {
                    let (name, dims) = if self.k.strings && self.rng.chance(1, 3) {
                        let n = self.rng.pick(STR_ARRAYS).to_string();
                        let d = Self::dims_of(&n);
                        (n, d)
                    } else {
                        let n = self.rng.pick(NUM_ARRAYS).to_string();
                        let d = Self::dims_of(&n);
                        (n, d)
                    };
                    let mut idx: Vec<Expr> = dims.iter().map(|d| Expr::Num(*d as f64)).collect();
                    if self.k.failures && self.rng.chance(1, 10) {
                        idx = vec![Expr::Num(self.rng.pick(&[9999.0, 10000.0, 100.0])), Expr::Num(self.rng.pick(&[0.0, 1.0, 100.0]))];
                    }
                    Stmt::Dim(name, idx)
                }
                15 if self.k.input => {
                    self.inputs += 1;
                    let t = if self.k.rnd_input_subscript && self.rng.chance(1, 2) {
                        // C(INT(RND(1) * 3)): the subscript has a side effect on the generator
                        LValue {
                            name: "C".into(),
                            index: Some(vec![Expr::Int(Box::new(Expr::Bin(
                                BinOp::Mul,
                                Box::new(Expr::Rnd(Box::new(Expr::Num(1.0)))),
                                Box::new(Expr::Num(3.0)),
                            )))]),
                        }
                    } else if self.k.failures && self.rng.chance(1, 6) {
                        // a cell that cannot be stored into: the reply suits, the assignment fails
                        LValue {
                            name: self.rng.pick(&["C", "K", "C$"]).to_string(),
                            index: Some(vec![Expr::Num(11.0 + self.rng.below(80) as f64)]),
                        }
                    } else if self.k.strings && self.rng.chance(1, 3) {
                        self.str_target()
                    } else {
                        self.num_target()
                    };
                    Stmt::Input(t)
                }
                16 if self.k.stop && self.rng.chance(1, 2) => {
                    self.stops += 1;
                    Stmt::Stop
                }
                17 if !self.open_loops.is_empty() && self.rng.chance(1, 6) => {
                    // NEXT of an open (possibly outer) loop variable from the middle of a body
                    let v = self.rng.pick(&self.open_loops.clone());
                    Stmt::Next(v)
                }
                _ => continue,
            };
            return s;
        }
    }

    fn cond(&mut self) -> Expr {
        let d = self.k.expr_depth.min(2);
        match self.rng.below(6) {
            0..=2 => {
                let op = self.rng.pick(&[BinOp::Eq, BinOp::Ne, BinOp::Lt, BinOp::Le, BinOp::Gt, BinOp::Ge]);
                Expr::Bin(op, Box::new(Expr::Var(self.num_var())), Box::new(Expr::Num(self.small_int())))
            }
            3 => self.num_expr(d),
            4 if self.k.strings => self.str_expr(1),
            _ => Expr::Num(self.rng.below(2) as f64),
        }
    }

    /// statements that may be the single THEN statement in front of an ELSE
    fn then_single(&mut self) -> Stmt {
        if self.k.resumable_in_then_else {
            match self.rng.below(12) {
                0 if self.k.gosub && !self.sub_entries.is_empty() => return Stmt::Gosub(u64::MAX),
                1 if self.k.input => {
                    self.inputs += 1;
                    return Stmt::Input(self.num_target());
                }
                2 if self.k.stop => {
                    self.stops += 1;
                    return Stmt::Stop;
                }
                _ => {}
            }
        }
        self.then_leaf()
    }

    /// IF <true> THEN IF b THEN x ELSE y ELSE z. Only with an outer condition that holds: when the outer
    /// condition is false this dialect continues at the *first* ELSE of the line (it does not match
    /// ELSEs to IFs), which is outside the documented forms — so that shape is not generated.
    fn nested_else_if(&mut self) -> Stmt {
        let b = self.cond();
        let x = self.then_leaf();
        let y = self.then_leaf();
        let inner = Stmt::If {
            cond: b,
            then: Branch::Stmts(vec![x]),
            els: Some(Branch::Stmts(vec![y])),
        };
        let z = self.branch_stmts(false, 2);
        Stmt::If {
            cond: Expr::Num(1.0 + self.rng.below(3) as f64),
            then: Branch::Stmts(vec![inner]),
            els: Some(Branch::Stmts(z)),
        }
    }

    fn then_leaf(&mut self) -> Stmt {
        if self.k.resumable_in_then_else && self.k.input && self.rng.chance(1, 6) {
            self.inputs += 1;
            return Stmt::Input(self.num_target());
        }
        match self.rng.below(4) {
            0 => self.assignment(),
            1 => self.tag(),
            _ => self.print(),
        }
    }

    fn branch_stmts(&mut self, allow_if: bool, depth: u32) -> Vec<Stmt> {
        let n = if self.k.multi_stmt { 1 + self.rng.usize(3) } else { 1 };
        let mut v: Vec<Stmt> = (0..n).map(|_| self.simple()).collect();
        // a whole FOR loop inside the clause (NEXT jumps back into the middle of it)
        if self.k.for_loops && self.k.multi_stmt && self.rng.chance(1, 6) {
            let free: Vec<&str> = NUM_VARS.iter().copied().filter(|c| !self.open_loops.iter().any(|o| o == c)).collect();
            if !free.is_empty() {
                let var = self.rng.pick(&free).to_string();
                v.push(Stmt::For {
                    var: var.clone(),
                    from: Expr::Num(1.0),
                    to: Expr::Num(1.0 + self.rng.below(3) as f64),
                    step: None,
                });
                if self.rng.chance(2, 3) {
                    v.push(self.simple());
                }
                v.push(Stmt::Next(var));
            }
        }
        // a subroutine call in the middle of the clause (RETURN comes back into it)
        if self.k.gosub && !self.sub_entries.is_empty() && self.rng.chance(1, 6) {
            v.push(Stmt::Gosub(u64::MAX));
            if self.rng.chance(1, 2) {
                v.push(self.simple());
            }
        }
        if allow_if && depth < 2 && self.rng.chance(1, 4) {
            v.push(self.if_stmt(depth + 1));
        }
        v
    }

    pub fn if_stmt(&mut self, depth: u32) -> Stmt {
        if self.k.else_forms && self.k.nested_else && self.rng.chance(1, 12) {
            return self.nested_else_if();
        }
        let cond = self.cond();
        let with_else = self.k.else_forms && self.rng.chance(1, 2);
        let then = if self.rng.chance(1, 4) {
            Branch::Line(u64::MAX) // resolved later
        } else if with_else {
            Branch::Stmts(vec![self.then_single()])
        } else {
            Branch::Stmts(self.branch_stmts(true, depth))
        };
        let els = if with_else {
            Some(if self.rng.chance(1, 4) {
                Branch::Line(u64::MAX)
            } else {
                Branch::Stmts(self.branch_stmts(true, depth))
            })
        } else {
            None
        };
        Stmt::If { cond, then, els }
    }

    fn push_line(&mut self, stmts: Vec<Stmt>) {
        self.lines.push(stmts);
    }

    fn simple_line(&mut self) -> Vec<Stmt> {
        let n = if self.k.multi_stmt && self.rng.chance(1, 3) {
            2 + self.rng.usize(2)
        } else {
            1
        };
        let mut v: Vec<Stmt> = (0..n).map(|_| self.simple()).collect();
        if self.rng.chance(1, 5) {
            v.push(self.if_stmt(0));
        } else if self.rng.chance(1, 12) {
            v.push(Stmt::Rem(self.rng.pick(&[" note", "", " IF THEN ELSE : PRINT", " é", " padded   ", "\t"]).to_string()));
        }
        v
    }

    fn block(&mut self, depth: u32, budget: &mut usize) {
        let n = 1 + self.rng.usize(4);
        for _ in 0..n {
            if *budget == 0 {
                return;
            }
            *budget -= 1;
            match self.rng.below(14) {
                0..=5 => {
                    let l = self.simple_line();
                    self.push_line(l);
                }
                6..=7 => {
                    let l = vec![self.if_stmt(0)];
                    self.push_line(l);
                }
                8..=9 if self.k.for_loops && depth < 3 => self.for_block(depth, budget),
                10 if self.k.gosub && !self.sub_entries.is_empty() => {
                    // alone on its line, or with statements before / behind it (RETURN comes back mid-line)
                    let mut l = vec![];
                    if self.k.multi_stmt && self.rng.chance(1, 4) {
                        l.push(self.simple());
                    }
                    l.push(Stmt::Gosub(u64::MAX));
                    if self.k.multi_stmt && self.rng.chance(1, 2) {
                        l.push(self.simple());
                        if self.rng.chance(1, 4) {
                            l.push(Stmt::Gosub(u64::MAX));
                        }
                    }
                    self.push_line(l);
                }
                11 if self.k.data => {
                    let n = 1 + self.rng.usize(4);
                    let items = (0..n).map(|_| self.data_item()).collect();
                    let mut l = vec![Stmt::Data(items)];
                    if self.k.multi_stmt && self.rng.chance(1, 4) {
                        l.push(self.tag());
                    }
                    if self.k.multi_stmt && self.rng.chance(1, 4) {
                        // a second DATA statement on the same line: READ goes through both, in order
                        let n = 1 + self.rng.usize(3);
                        let more = (0..n).map(|_| self.data_item()).collect();
                        l.push(Stmt::Data(more));
                    }
                    self.push_line(l);
                }
                12 => self.counted_goto_loop(budget),
                13 if self.rng.below(100) < self.k.wild_goto_pct => {
                    self.push_line(vec![Stmt::Goto(u64::MAX - 1)]);
                }
                13 if self.rng.chance(1, 3) => {
                    // a chain of lines that are nothing but GOTO <the following line>
                    let n = 2 + self.rng.usize(3);
                    for _ in 0..n {
                        let here = self.lines.len();
                        self.push_line(vec![Stmt::Goto(u64::MAX - 2 - (here as u64 + 1))]);
                    }
                    let l = vec![self.tag()];
                    self.push_line(l);
                }
                _ => {
                    let l = self.simple_line();
                    self.push_line(l);
                }
            }
        }
    }

    fn for_block(&mut self, depth: u32, budget: &mut usize) {
        let mut var = self.num_var();
        // mostly distinct loop variables; sometimes reuse an open one (forgets the outer loop)
        if self.open_loops.contains(&var) && !self.rng.chance(1, 8) {
            for v in NUM_VARS {
                if !self.open_loops.iter().any(|o| o == v) {
                    var = v.to_string();
                    break;
                }
            }
        }
        let from = Expr::Num(self.rng.below(4) as f64);
        let (to, step) = match self.rng.below(8) {
            0 => (Expr::Num(self.rng.below(4) as f64), None), // may be below `from`: body still runs once
            1 => (Expr::Num(0.0), Some(Expr::Neg(Box::new(Expr::Num(1.0))))),
            2 => (Expr::Num(3.0), Some(Expr::Num(0.5))),
            3 => (Expr::Var(self.num_var()), Some(Expr::Num(2.0))),
            4 => (Expr::Num(5.0), Some(Expr::Var(self.num_var()))), // step from a variable (0 => endless, cut by cap)
            _ => (Expr::Num(1.0 + self.rng.below(4) as f64), None),
        };
        let for_stmt = Stmt::For {
            var: var.clone(),
            from,
            to,
            step,
        };
        if self.k.multi_stmt && self.rng.chance(1, 5) {
            // whole loop on one line; sometimes with an empty body (the classic delay loop)
            if self.rng.chance(1, 3) {
                self.push_line(vec![for_stmt, Stmt::Next(var)]);
                return;
            }
            let body = self.simple();
            self.push_line(vec![for_stmt, body, Stmt::Next(var)]);
            return;
        }
        self.push_line(vec![for_stmt]);
        self.open_loops.push(var.clone());
        self.block(depth + 1, budget);
        self.open_loops.pop();
        let mut tail = vec![];
        if self.rng.chance(1, 4) {
            tail.push(self.simple());
        }
        tail.push(Stmt::Next(var));
        // a statement behind the NEXT on the same line (runs once, when the loop is done)
        if self.k.multi_stmt && self.rng.chance(1, 4) {
            tail.push(self.simple());
        }
        self.push_line(tail);
    }

    /// K = K + 1 : IF K < n THEN <back>
    fn counted_goto_loop(&mut self, budget: &mut usize) {
        let v = self.num_var();
        let start = self.lines.len();
        let l = self.simple_line();
        self.push_line(l);
        if *budget > 0 {
            *budget -= 1;
            let l = self.simple_line();
            self.push_line(l);
        }
        let n = 2.0 + self.rng.below(3) as f64;
        self.push_line(vec![
            Stmt::Let {
                kw: false,
                target: LValue {
                    name: v.clone(),
                    index: None,
                },
                e: Expr::Bin(BinOp::Add, Box::new(Expr::Var(v.clone())), Box::new(Expr::Num(1.0))),
            },
            Stmt::If {
                cond: Expr::Bin(BinOp::Lt, Box::new(Expr::Var(v)), Box::new(Expr::Num(n))),
                then: Branch::Line(u64::MAX - 2 - start as u64),
                els: None,
            },
        ]);
    }

    fn subroutine(&mut self, budget: &mut usize) {
        self.sub_entries.push(self.lines.len());
        let l = vec![self.tag()];
        self.push_line(l);
        let saved = std::mem::take(&mut self.open_loops);
        let mut b = (*budget).min(3);
        self.block(1, &mut b);
        self.open_loops = saved;
        self.push_line(vec![Stmt::Return]);
    }

    fn failure_stmt(&mut self) -> Vec<Stmt> {
        let v = self.num_var();
        match self.rng.below(16) {
            0 => vec![Stmt::Print {
                q: false,
                items: vec![PItem::E(Expr::Bin(BinOp::Div, Box::new(Expr::Num(1.0)), Box::new(Expr::Num(0.0))))],
            }],
            1 => vec![Stmt::Read((0..6).map(|_| LValue { name: "C$".into(), index: None }).collect())],
            2 => vec![Stmt::Let {
                kw: false,
                target: LValue {
                    name: "C".into(),
                    index: Some(vec![Expr::Num(self.rng.pick(&[11.0, 12.0, 13.0, 100.0]))]),
                },
                e: Expr::Num(1.0),
            }],
            3 => vec![Stmt::Goto(99999)],
            4 => vec![Stmt::Return],
            5 => vec![Stmt::Next(v)],
            6 => vec![Stmt::Dim("K".into(), vec![Expr::Num(3.0)]), Stmt::Dim("K".into(), vec![Expr::Num(3.0)])],
            7 => vec![Stmt::Let {
                kw: true,
                target: LValue {
                    name: "C$".into(),
                    index: None,
                },
                e: Expr::Num(1.0),
            }],
            8 => vec![Stmt::Dim("W".into(), vec![Expr::Num(100.0), Expr::Num(100.0)])],
            9 => vec![Stmt::Print {
                q: false,
                items: vec![PItem::E(Expr::Rnd(Box::new(Expr::Neg(Box::new(Expr::Num(1.0))))))],
            }],
            10 => vec![Stmt::Print {
                q: false,
                items: vec![PItem::E(Expr::Cell("V".into(), vec![Expr::Neg(Box::new(Expr::Num(1.0))), Expr::Num(0.0)]))],
            }],
            11 => vec![Stmt::Gosub(99998)],
            12 => vec![Stmt::Print {
                q: false,
                items: vec![PItem::E(Expr::Cell("Q".into(), vec![Expr::Num(1.0); 4]))],
            }],
            13 => vec![Stmt::Read(vec![LValue { name: v, index: None }; 3])],
            14 => vec![Stmt::If {
                cond: Expr::Bin(BinOp::Lt, Box::new(Expr::Str("a".into())), Box::new(Expr::Num(1.0))),
                then: Branch::Stmts(vec![Stmt::End]),
                els: None,
            }],
            _ => vec![Stmt::For {
                var: "Q".into(),
                from: Expr::Str("x".into()),
                to: Expr::Num(1.0),
                step: None,
            }],
        }
    }

    /// Generate a whole program.
    pub fn program(mut self) -> (Vec<Line>, GenInfo) {
        let mut budget = self.k.max_lines;
        // function definitions first (executed before use), most of the time
        let nf = if self.k.funcs { self.rng.usize(3) } else { 0 };
        let defs_first = self.rng.chance(9, 10);
        let mut deferred_defs = vec![];
        for i in 0..nf {
            let name = FUNCS[i].to_string();
            let wide = self.rng.chance(1, 3);
            let arity = 1 + self.rng.usize(if wide { 3 } else { 1 });
            // parameters may shadow globals; bodies may read globals and callers' parameters
            let mut params: Vec<String> = (0..arity).map(|_| self.rng.pick(&["J", "K", "Q", "C", "Y"]).to_string()).collect();
            // a string parameter in one function out of four (parameter typing follows the `$` suffix)
            if self.k.strings && self.rng.chance(1, 4) {
                let i = self.rng.usize(arity);
                params[i] = self.rng.pick(&["J$", "K$", "Q$"]).to_string();
            }
            let kinds: Vec<bool> = params.iter().map(|p| p.ends_with('$')).collect();
            let d = self.k.expr_depth.min(2);
            let saved = (self.k.arrays, self.k.rnd, self.k.failures);
            let saved_funcs = self.funcs.clone();
            if self.k.pure_fn_bodies {
                // no arrays (reading one creates it), no RND (advances the generator), no calls to
                // other functions (an undefined one is an array read): calling the function writes nothing
                self.k.arrays = false;
                self.k.rnd = false;
                self.funcs.clear();
            }
            let mut body = self.num_expr(d);
            if let Some(sp) = params.iter().find(|p| p.ends_with('$')) {
                // make the string parameter matter: (P$ = "abc") * 3 + <body>
                let probe = Expr::Bin(
                    BinOp::Mul,
                    Box::new(Expr::Paren(Box::new(Expr::Bin(
                        self.rng.pick(&[BinOp::Eq, BinOp::Lt, BinOp::Ne]),
                        Box::new(Expr::Var(sp.clone())),
                        Box::new(Expr::Str(self.rng.pick(WORDS).to_string())),
                    )))),
                    Box::new(Expr::Num(3.0)),
                );
                body = Expr::Bin(BinOp::Add, Box::new(probe), Box::new(body));
            }
            (self.k.arrays, self.k.rnd, self.k.failures) = saved;
            self.funcs = saved_funcs;
            let stmt = Stmt::Def {
                name: name.clone(),
                params,
                body,
            };
            self.funcs.push((name, kinds));
            if defs_first {
                // sometimes the previous line is a lone DEF: put this one behind it on the same line
                let join = self.k.multi_stmt
                    && self.rng.chance(1, 3)
                    && matches!(self.lines.last().map(|l| l.as_slice()), Some([Stmt::Def { .. }]));
                if join {
                    self.lines.last_mut().unwrap().push(stmt);
                    continue;
                }
                let mut l = vec![stmt];
                if self.k.multi_stmt && self.rng.chance(1, 4) {
                    l.push(self.tag());
                }
                self.push_line(l);
            } else {
                deferred_defs.push(stmt);
            }
        }
        if self.k.special_defs {
            // FNW(J) = 7 + J: never 0 for the arguments used, so a vanished definition is visible
            self.push_line(vec![Stmt::Def {
                name: "FNW".into(),
                params: vec!["J".into()],
                body: Expr::Bin(BinOp::Add, Box::new(Expr::Num(7.0)), Box::new(Expr::Var("J".into()))),
            }]);
            self.push_line(vec![Stmt::Def {
                name: "FNK".into(),
                params: vec!["J".into()],
                body: Expr::Bin(BinOp::Div, Box::new(Expr::Var("J".into())), Box::new(Expr::Num(0.0))),
            }]);
            self.push_line(vec![Stmt::Def {
                name: "FNQ".into(),
                params: vec!["J".into()],
                body: Expr::Bin(
                    BinOp::Add,
                    Box::new(Expr::Call("FNQ".into(), vec![Expr::Var("J".into())])),
                    Box::new(Expr::Num(1.0)),
                ),
            }]);
        }
        // reserve subroutine slots (entries known before the main body is generated)
        let nsubs = if self.k.gosub { self.rng.usize(3) } else { 0 };
        // we generate the main body first but need entries: use placeholder indices resolved after
        let want_subs = nsubs;
        if want_subs > 0 {
            // mark that subs will exist so that GOSUB placeholders are produced
            self.sub_entries.push(usize::MAX);
        }
        let mut main_budget = budget.saturating_sub(want_subs * 3).max(2);
        while main_budget > 0 {
            self.block(0, &mut main_budget);
            if self.rng.chance(1, 3) {
                break;
            }
        }
        // a second DEF for a name that is already defined (same parameter kinds, another body): the
        // definition executed last is the one in force
        if !self.funcs.is_empty() && self.rng.chance(1, 8) {
            let (name, kinds) = self.rng.pick(&self.funcs.clone());
            if !["FNW", "FNK", "FNQ"].contains(&name.as_str()) {
                let params: Vec<String> = kinds.iter().enumerate().map(|(i, s)| if *s { format!("{}$", ["J", "K", "Q"][i % 3]) } else { ["Y", "C", "J"][i % 3].to_string() }).collect();
                let first_num = params.iter().find(|p| !p.ends_with('$')).cloned();
                let body = match first_num {
                    Some(p) => Expr::Bin(BinOp::Add, Box::new(Expr::Num(1000.0 + self.rng.below(9) as f64)), Box::new(Expr::Var(p))),
                    None => Expr::Num(1000.0 + self.rng.below(9) as f64),
                };
                deferred_defs.push(Stmt::Def { name, params, body });
            }
        }
        for d in deferred_defs {
            let at = self.rng.usize(self.lines.len() + 1);
            self.lines.insert(at, vec![d]);
        }
        if self.k.failures && self.rng.chance(3, 5) {
            let at = self.rng.usize(self.lines.len() + 1);
            let f = self.failure_stmt();
            self.lines.insert(at, f);
        }
        // recursion to the frame cap (only with failures on): subroutine calling itself with a counter
        let deep_recursion = self.k.failures && self.k.gosub && self.rng.chance(1, 8);
        if self.k.stop && want_subs == 0 && !deep_recursion && self.rng.chance(1, 4) {
            // STOP as the very last statement of the program: CONT from there ends the run normally
            self.stops += 1;
            if self.rng.chance(1, 2) {
                self.push_line(vec![Stmt::Stop]);
            } else {
                let t = self.tag();
                self.push_line(vec![t, Stmt::Stop]);
            }
        } else {
            self.push_line(vec![Stmt::End]);
        }
        self.sub_entries.clear();
        budget = budget.max(3);
        for _ in 0..want_subs {
            self.subroutine(&mut budget);
        }
        if deep_recursion {
            let at = self.lines.len();
            self.sub_entries.push(at);
            let depth = self.rng.pick(&[31.0, 32.0, 33.0]);
            let count = Stmt::Let {
                kw: false,
                target: LValue { name: "Z".into(), index: None },
                e: Expr::Bin(BinOp::Add, Box::new(Expr::Var("Z".into())), Box::new(Expr::Num(1.0))),
            };
            let recurse = Stmt::If {
                cond: Expr::Bin(BinOp::Lt, Box::new(Expr::Var("Z".into())), Box::new(Expr::Num(depth))),
                then: Branch::Stmts(vec![Stmt::Gosub(u64::MAX - 3 - at as u64)]),
                els: None,
            };
            if self.rng.chance(1, 2) {
                self.push_line(vec![count, recurse]);
            } else {
                // the GOSUB that fails sits on another line than the line it targets
                self.push_line(vec![count]);
                let t = self.tag();
                self.push_line(vec![t]);
                self.push_line(vec![recurse]);
            }
            // at the deepest level a user function is called: with `depth` frames on the shared stack
            // the call needs frame depth+1 (31 -> fine, 32 -> refused)
            if !self.funcs.is_empty() && self.rng.chance(2, 3) {
                let (name, kinds) = self.rng.pick(&self.funcs.clone());
                let args = kinds.iter().map(|s| if *s { Expr::Str("abc".into()) } else { Expr::Num(2.0) }).collect();
                self.push_line(vec![Stmt::Print {
                    q: false,
                    items: vec![PItem::E(Expr::Str("deep".into())), PItem::Semi, PItem::E(Expr::Call(name, args))],
                }]);
            }
            self.push_line(vec![Stmt::Return]);
        }
        // numbering
        let n = self.lines.len();
        let mut nums = Vec::with_capacity(n);
        let mut cur: u64 = self.k.line_base + if self.k.dense_numbers { self.rng.below(3) } else { 10 * (1 + self.rng.below(3)) };
        for _ in 0..n {
            nums.push(cur);
            cur += if self.k.dense_numbers { 1 + self.rng.below(2) } else { 10 * (1 + self.rng.below(3)) + self.rng.below(2) * 5 };
        }
        // resolve placeholders
        let subs: Vec<u64> = self.sub_entries.iter().map(|i| nums[*i]).collect();
        let mut lines: Vec<Line> = vec![];
        let all_lines = std::mem::take(&mut self.lines);
        for (i, stmts) in all_lines.into_iter().enumerate() {
            let stmts = stmts.into_iter().map(|s| self.resolve(s, i, &nums, &subs)).collect();
            lines.push(Line { num: nums[i], stmts });
        }
        let info = GenInfo {
            inputs: self.inputs,
            stops: self.stops,
            funcs: self.funcs.len(),
        };
        (lines, info)
    }

    fn resolve_target(&mut self, t: u64, here: usize, nums: &[u64], subs: &[u64], gosub: bool) -> u64 {
        if t == u64::MAX {
            if gosub {
                if subs.is_empty() {
                    // no subroutine after all: jump forward to a line (RETURN will be missing: legal program, fails or ends)
                    return nums[(here + 1).min(nums.len() - 1)];
                }
                return self.rng.pick(subs);
            }
            // forward jump mostly, so that programs terminate
            let lo = here + 1;
            if lo >= nums.len() {
                return nums[nums.len() - 1];
            }
            return nums[lo + self.rng.usize(nums.len() - lo)];
        }
        if t == u64::MAX - 1 {
            // wild jump anywhere
            return nums[self.rng.usize(nums.len())];
        }
        if t > u64::MAX - 2 - 100_000 && t <= u64::MAX - 2 {
            // explicit line index
            let idx = (u64::MAX - 2 - t) as usize;
            return nums[idx.min(nums.len() - 1)];
        }
        t
    }

    fn resolve(&mut self, s: Stmt, here: usize, nums: &[u64], subs: &[u64]) -> Stmt {
        match s {
            Stmt::Goto(t) => Stmt::Goto(self.resolve_target(t, here, nums, subs, false)),
            Stmt::Gosub(t) => {
                let t2 = if t > u64::MAX - 3 - 100_000 && t <= u64::MAX - 3 {
                    nums[((u64::MAX - 3 - t) as usize).min(nums.len() - 1)]
                } else {
                    self.resolve_target(t, here, nums, subs, true)
                };
                Stmt::Gosub(t2)
            }
            Stmt::If { cond, then, els } => {
                let mut rb = |g: &mut Self, b: Branch| match b {
                    Branch::Line(t) => Branch::Line(g.resolve_target(t, here, nums, subs, false)),
                    Branch::Stmts(v) => Branch::Stmts(v.into_iter().map(|s| g.resolve(s, here, nums, subs)).collect()),
                };
                let then = rb(self, then);
                let els = els.map(|b| rb(self, b));
                Stmt::If { cond, then, els }
            }
            other => other,
        }
    }
}

#[derive(Clone, Debug, Default)]
pub struct GenInfo {
    pub inputs: usize,
    pub stops: usize,
    pub funcs: usize,
}

// ------------------------------------------------------------------ replies

pub fn reply_for(rng: &mut Rng, numeric_bias: bool) -> Reply {
    // replies longer than any classic line buffer: nothing is cut off
    if rng.chance(1, 40) {
        return match rng.below(3) {
            0 => {
                let w = format!("{}{}", "z".repeat(260 + rng.usize(60)), rng.below(10));
                Reply { text: format!("\"{}\"", w), first: ReplyItem::Text(w), surplus: false }
            }
            1 => Reply { text: format!("5{},6", " ".repeat(270 + rng.usize(30))), first: ReplyItem::Num(5.0), surplus: true },
            _ => {
                let digits = format!("1{}", "0".repeat(256 + rng.usize(40)));
                let n: f64 = digits.parse().unwrap();
                Reply { text: digits, first: ReplyItem::Num(n), surplus: false }
            }
        };
    }
    // first item
    let (mut text, first): (String, ReplyItem) = match rng.below(if numeric_bias { 10 } else { 14 }) {
        0..=3 => {
            let n = rng.below(100) as f64;
            (format!("{}", n), ReplyItem::Num(n))
        }
        4 => {
            let (t, n) = rng.pick(&[("2.5", 2.5), ("+5", 5.0), ("+2.5", 2.5), ("1e2", 100.0), ("+3E1", 30.0), (".5", 0.5), ("-.5", -0.5), ("007", 7.0), ("5.", 5.0)]);
            (t.to_string(), ReplyItem::Num(n))
        }
        5 => ("-3".into(), ReplyItem::Num(-3.0)),
        6 => ("0.25".into(), ReplyItem::Num(0.25)),
        7 => ("1000000".into(), ReplyItem::Num(1000000.0)),
        8..=9 => {
            let w = rng.pick(&["hello", "abc", "Zed", "x y", "é", "12abc", "a.b"]);
            (w.to_string(), ReplyItem::Text(w.to_string()))
        }
        10 => ("\"a,b:c\"".into(), ReplyItem::Text("a,b:c".into())),
        11 => ("\" padded \"".into(), ReplyItem::Text(" padded ".into())),
        12 => (String::new(), ReplyItem::Text(String::new())),
        _ => ("\"\"".into(), ReplyItem::Text(String::new())),
    };
    // blanks around an unquoted item are insignificant
    let quoted = text.starts_with('"');
    if rng.chance(1, 5) && !text.is_empty() {
        text = format!("  {}", text);
    }
    if rng.chance(1, 5) && !text.is_empty() && !quoted {
        text = format!("{} ", text);
    }
    // surplus
    let mut surplus = false;
    match rng.below(8) {
        // (a comma after an empty unquoted item does not separate anything: "" + ", 7" is the single item 7)
        0 if !text.trim().is_empty() => {
            text.push_str(", 7");
            surplus = true;
        }
        1 if !text.trim().is_empty() => {
            text.push_str(",x,y");
            surplus = true;
        }
        2 => {
            text.push_str(": rest");
            surplus = true;
        }
        3 if !text.trim().is_empty() => {
            text.push(':');
            surplus = true;
        }
        _ => {}
    }
    Reply { text, first, surplus }
}

pub fn default_reply() -> Reply {
    Reply {
        text: "0".into(),
        first: ReplyItem::Num(0.0),
        surplus: false,
    }
}

pub fn reply_script(rng: &mut Rng, n: usize) -> Vec<Reply> {
    let bias = rng.chance(1, 2);
    (0..n).map(|_| reply_for(rng, bias)).collect()
}
